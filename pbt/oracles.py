"""NumPy-only oracles.  Nothing in this file imports exponax or jax.

Conventions: a state is a real array (C, N, ..., N); grid x_j = j L / N with
"ij" ordering (axis d of the array is coordinate d); full spectra use
np.fft.fftn ordering, half spectra the rfftn layout (last axis halved).
"""

from __future__ import annotations

import itertools
import math

import numpy as np

# --------------------------------------------------------------------------
# wavenumbers / grids


def kfull(N):
    """signed integer wavenumber of index i on a full FFT axis; even N: index N/2 -> -N/2"""
    return np.array([i if i <= (N - 1) // 2 else i - N for i in range(N)], dtype=float)


def khalf(N):
    return np.arange(N // 2 + 1, dtype=float)


def rfft_wavenumbers(D, N):
    """(D, N, .., N//2+1) integer wavenumbers of the rfftn layout"""
    axes = [kfull(N)] * (D - 1) + [khalf(N)]
    shape = tuple(len(a) for a in axes)
    out = np.zeros((D,) + shape)
    for d, a in enumerate(axes):
        sh = [1] * D
        sh[d] = len(a)
        out[d] = np.broadcast_to(a.reshape(sh), shape)
    return out


def fft_wavenumbers(D, N):
    """(D, N, .., N) integer wavenumbers of the full fftn layout"""
    axes = [kfull(N)] * D
    out = np.zeros((D,) + (N,) * D)
    for d, a in enumerate(axes):
        sh = [1] * D
        sh[d] = N
        out[d] = np.broadcast_to(a.reshape(sh), (N,) * D)
    return out


def own_grid(D, N, L):
    """(D, N, .., N) coordinates x_j = j L / N, axis d <-> coordinate d"""
    x1 = np.arange(N) * (L / N)
    out = np.zeros((D,) + (N,) * D)
    for d in range(D):
        sh = [1] * D
        sh[d] = N
        out[d] = np.broadcast_to(x1.reshape(sh), (N,) * D)
    return out


def spatial_axes(D):
    return tuple(range(-D, 0))


# --------------------------------------------------------------------------
# trigonometric polynomials  (mode = [k (list of D ints), amplitude, phase])


def eval_trig(modes, X, L, deriv=None):
    """sum_m a cos(2 pi k.x / L + phi) evaluated on coordinates X (D, ...).
    deriv: optional tuple of per-axis derivative orders."""
    D = X.shape[0]
    out = np.zeros(X.shape[1:])
    for k, a, phi in modes:
        theta = phi
        fac = a
        nder = 0
        for d in range(D):
            kap = 2 * math.pi * k[d] / L
            theta = theta + kap * X[d]
            if deriv is not None and deriv[d]:
                fac = fac * kap ** deriv[d]
                nder += deriv[d]
        out = out + fac * np.cos(theta + nder * math.pi / 2)
    return out


def trig_state(chan_modes, D, N, L, X=None):
    """chan_modes: list (per channel) of mode lists -> (C, N..N)"""
    if X is None:
        X = own_grid(D, N, L)
    return np.stack([eval_trig(m, X, L) for m in chan_modes])


def white(seed, shape, amp=1.0):
    """deterministic white noise from a Hypothesis-drawn integer seed"""
    return amp * np.random.default_rng(int(seed)).standard_normal(shape)


def remove_nyquist(u):
    """zero every mode with a component at the Nyquist wavenumber (even N only)"""
    D = u.ndim - 1
    N = u.shape[-1]
    if N % 2 == 1:
        return u.copy()
    U = np.fft.fftn(u, axes=spatial_axes(D))
    k = fft_wavenumbers(D, N)
    keep = np.all(np.abs(k) < N / 2, axis=0)
    return np.fft.ifftn(U * keep, axes=spatial_axes(D)).real


def band_limit(u, K):
    """keep |k|_inf <= K"""
    D = u.ndim - 1
    N = u.shape[-1]
    U = np.fft.fftn(u, axes=spatial_axes(D))
    k = fft_wavenumbers(D, N)
    keep = np.all(np.abs(k) <= K, axis=0)
    return np.fft.ifftn(U * keep, axes=spatial_axes(D)).real


def leray_np(u):
    """Leray projection of a Nyquist-free vector field (C == D), mean kept"""
    D = u.ndim - 1
    N = u.shape[-1]
    U = np.fft.fftn(u, axes=spatial_axes(D))
    k = fft_wavenumbers(D, N)
    k2 = (k**2).sum(0)
    k2s = np.where(k2 == 0, 1.0, k2)
    div = (k * U).sum(0)
    U = U - k * div / k2s
    return np.fft.ifftn(U, axes=spatial_axes(D)).real


def make_state(spec, C, D, N, L=1.0):
    """Build a real state (C, N..N) from a JSON-able spec."""
    kind = spec["kind"]
    shape = (C,) + (N,) * D
    if kind == "white":
        u = white(spec["seed"], shape, spec.get("amp", 1.0))
    elif kind == "nyqfree":
        u = remove_nyquist(white(spec["seed"], shape, spec.get("amp", 1.0)))
    elif kind == "band":
        u = band_limit(white(spec["seed"], shape, spec.get("amp", 1.0)), spec["K"])
    elif kind == "trig":
        cm = spec["modes"]
        assert len(cm) == C, (len(cm), C)
        u = trig_state(cm, D, N, L)
    elif kind == "zero":
        u = np.zeros(shape)
    elif kind == "const":
        u = np.ones(shape) * np.asarray(spec["value"], dtype=float).reshape(
            (-1,) + (1,) * D
        )
    else:
        raise ValueError(kind)
    if spec.get("mean") is not None:
        u = u + float(spec["mean"])
    if spec.get("divfree"):
        u = leray_np(remove_nyquist(u))
    return u


def trig_kmax(spec):
    return max(
        (abs(kd) for ch in spec["modes"] for (k, a, p) in ch for kd in k), default=0
    )


# --------------------------------------------------------------------------
# analytic DFT of a plane wave in the rfftn layout


def plane_wave_rfft(k, a, phi, D, N):
    """Expected np.fft.rfftn of a cos(2 pi k.x/L + phi) on the N^D grid
    (k integer vector, any sign, |k_d| <= N/2).  Returned as a dict
    {index tuple: complex value}; every other entry is 0."""
    out = {}
    for sgn in (+1, -1):
        kk = [sgn * int(x) for x in k]
        # alias into the stored layout
        idx = []
        ok = True
        for d in range(D):
            m = kk[d] % N
            idx.append(m)
        # last axis is halved: stored only if index <= N//2
        if idx[-1] > N // 2:
            ok = False
        if ok:
            val = (N**D) * a / 2 * complex(math.cos(phi), sgn * math.sin(phi))
            t = tuple(idx)
            out[t] = out.get(t, 0) + val
    return out


# --------------------------------------------------------------------------
# phi functions and the Cox-Matthews ETDRK reference

_FACT = [math.factorial(i) for i in range(60)]


def _taylor(z, coef):
    z = np.asarray(z, dtype=complex)
    out = np.zeros_like(z)
    p = np.ones_like(z)
    for c in coef:
        out = out + c * p
        p = p * z
    return out


_NT = 40
_C_PHI = {k: [1.0 / _FACT[j + k] for j in range(_NT)] for k in (1, 2, 3)}
_C_F1 = [1.0 / _FACT[j + 1] - 3.0 / _FACT[j + 2] + 4.0 / _FACT[j + 3] for j in range(_NT)]
_C_F2 = [1.0 / _FACT[j + 2] - 2.0 / _FACT[j + 3] for j in range(_NT)]
_C_F3 = [4.0 / _FACT[j + 3] - 1.0 / _FACT[j + 2] for j in range(_NT)]


def _sel(z, small, large, thr=1.0):
    z = np.asarray(z, dtype=complex)
    m = np.abs(z) < thr
    zs = np.where(m, z, 0.0)
    zl = np.where(m, 1.0, z)
    with np.errstate(over="ignore", invalid="ignore", divide="ignore"):
        return np.where(m, small(zs), large(zl))


def _exp(z):
    z = np.asarray(z, dtype=complex)
    with np.errstate(over="ignore", invalid="ignore"):
        return np.exp(z)


def phi1(z, thr=1.0):
    return _sel(z, lambda s: _taylor(s, _C_PHI[1]), lambda l: (_exp(l) - 1) / l, thr)


def phi2(z, thr=1.0):
    return _sel(
        z, lambda s: _taylor(s, _C_PHI[2]), lambda l: (_exp(l) - 1 - l) / l**2, thr
    )


def phi3(z, thr=1.0):
    return _sel(
        z,
        lambda s: _taylor(s, _C_PHI[3]),
        lambda l: (_exp(l) - 1 - l - l**2 / 2) / l**3,
        thr,
    )


def cm_f1(z, thr=1.0):
    return _sel(
        z,
        lambda s: _taylor(s, _C_F1),
        lambda l: (-4 - l + _exp(l) * (4 - 3 * l + l**2)) / l**3,
        thr,
    )


def cm_f2(z, thr=1.0):
    return _sel(
        z,
        lambda s: _taylor(s, _C_F2),
        lambda l: (2 + l + _exp(l) * (-2 + l)) / l**3,
        thr,
    )


def cm_f3(z, thr=1.0):
    return _sel(
        z,
        lambda s: _taylor(s, _C_F3),
        lambda l: (-4 - 3 * l - l**2 + _exp(l) * (4 - l)) / l**3,
        thr,
    )


def selftest_phi():
    """cross-check the Taylor and closed-form branches on their overlap"""
    rng = np.random.default_rng(0)
    z = (0.7 + 0.6 * rng.random(200)) * np.exp(2j * np.pi * rng.random(200))
    for f in (phi1, phi2, phi3, cm_f1, cm_f2, cm_f3):
        a = f(z, thr=0.0)  # closed form everywhere
        b = f(z, thr=10.0)  # Taylor everywhere
        err = np.max(np.abs(a - b) / np.maximum(np.abs(b), 1e-3))
        if not err < 2e-12:
            raise AssertionError("phi self-test failed for %s: %g" % (f.__name__, err))
    return True


def etdrk_ref(order, dt, lam, u, nonlin, jitter=None):
    """Cox & Matthews (2002) ETDRK-p, p=0..4, with exact phi coefficients.

    jitter=(seed, rel): multiply every coefficient array by (1 + rel*g), g standard complex normal - used to
    MEASURE the conditioning of a step (how much an rel-sized rounding error of the coefficients moves the
    result), never for the reference value itself.

    lam, u: complex arrays of identical (broadcastable) shape; nonlin: callable
    on such arrays.  Stage arithmetic in complex128.
    Order 1: eq. (4); order 2: eq. (22); order 3: eqs. (23)-(25); order 4:
    eqs. (26)-(29).
    """
    lam = np.asarray(lam, dtype=complex)
    u = np.asarray(u, dtype=complex)
    z = lam * dt
    if jitter is not None:
        _rng = np.random.default_rng(jitter[0])

        def J(x):
            x = np.asarray(x, dtype=complex)
            return x * (1 + jitter[1] * (_rng.standard_normal(x.shape) + 1j * _rng.standard_normal(x.shape)))
    else:

        def J(x):
            return x

    E = J(_exp(z))
    if order == 0:
        return E * u
    Nu = nonlin(u)
    p1 = J(phi1(z))
    if order == 1:
        return E * u + dt * p1 * Nu
    if order == 2:
        a = E * u + dt * p1 * Nu
        return a + dt * J(phi2(z)) * (nonlin(a) - Nu)
    Eh = J(_exp(z / 2))
    h = J(phi1(z / 2) / 2)
    f1, f2, f3 = J(cm_f1(z)), J(cm_f2(z)), J(cm_f3(z))
    if order == 3:
        a = Eh * u + dt * h * Nu
        Na = nonlin(a)
        b = E * u + dt * p1 * (2 * Na - Nu)
        Nb = nonlin(b)
        return E * u + dt * (f1 * Nu + 4 * f2 * Na + f3 * Nb)
    if order == 4:
        a = Eh * u + dt * h * Nu
        Na = nonlin(a)
        b = Eh * u + dt * h * Na
        Nb = nonlin(b)
        c = Eh * a + dt * h * (2 * Nb - Nu)
        Nc = nonlin(c)
        return E * u + dt * (f1 * Nu + 2 * f2 * (Na + Nb) + f3 * Nc)
    raise ValueError(order)


# --------------------------------------------------------------------------
# alias-free fine-grid evaluation (O-fine)


def cutoff_K(N, fraction):
    """documented dealiasing band: keep |k|_inf <= fraction*(N//2) - 1"""
    return math.floor(fraction * (N // 2) - 1)


def band_mask_full(D, N, K):
    return np.all(np.abs(fft_wavenumbers(D, N)) <= K, axis=0)


def to_fine(U, D, N, M, K):
    """U: (C, N..N) full complex spectrum; returns the real fine-grid field
    (C, M..M) of the band-truncated trigonometric polynomial."""
    C = U.shape[0]
    F = np.zeros((C,) + (M,) * D, dtype=complex)
    if K >= 0:
        k = fft_wavenumbers(D, N).astype(int)
        mask = np.all(np.abs(k) <= K, axis=0)
        idxN = np.nonzero(mask)
        kk = k[(slice(None),) + idxN]
        idxM = tuple(kk[d] % M for d in range(D))
        F[(slice(None),) + idxM] = U[(slice(None),) + idxN]
    f = np.fft.ifftn(F, axes=spatial_axes(D)) * (M / N) ** D
    return f.real


def from_fine(f, D, N, M, K):
    """fine real field (C, M..M) -> full spectrum on the N grid restricted to |k|_inf<=K"""
    F = np.fft.fftn(f, axes=spatial_axes(D)) * (N / M) ** D
    C = f.shape[0]
    U = np.zeros((C,) + (N,) * D, dtype=complex)
    if K >= 0:
        k = fft_wavenumbers(D, N).astype(int)
        mask = np.all(np.abs(k) <= K, axis=0)
        idxN = np.nonzero(mask)
        kk = k[(slice(None),) + idxN]
        idxM = tuple(kk[d] % M for d in range(D))
        U[(slice(None),) + idxN] = F[(slice(None),) + idxM]
    return U


def grad_fine(f, D, M, L, order=1):
    """(C, M..M) -> (C, D, M..M): exact spectral partial derivatives on the fine grid"""
    F = np.fft.fftn(f, axes=spatial_axes(D))
    k = fft_wavenumbers(D, M) * 2 * np.pi / L
    G = F[:, None] * ((1j * k) ** order)[None]
    return np.fft.ifftn(G, axes=spatial_axes(D)).real


def lap_fine(f, D, M, L):
    F = np.fft.fftn(f, axes=spatial_axes(D))
    k2 = ((fft_wavenumbers(D, M) * 2 * np.pi / L) ** 2).sum(0)
    return np.fft.ifftn(-k2 * F, axes=spatial_axes(D)).real


def lap_inv_fine(f, D, M, L):
    F = np.fft.fftn(f, axes=spatial_axes(D))
    k2 = ((fft_wavenumbers(D, M) * 2 * np.pi / L) ** 2).sum(0)
    with np.errstate(divide="ignore", invalid="ignore"):
        inv = np.where(k2 == 0, 0.0, -1.0 / np.where(k2 == 0, 1.0, k2))
    return np.fft.ifftn(F * inv, axes=spatial_axes(D)).real


def half_of_full(U):
    """full fftn spectrum (C, N..N) -> rfftn layout (C, N.., N//2+1)"""
    N = U.shape[-1]
    return U[..., : N // 2 + 1]


def full_of_real(u):
    D = u.ndim - 1
    return np.fft.fftn(u, axes=spatial_axes(D))


def rfftn(u):
    D = u.ndim - 1
    return np.fft.rfftn(u, axes=spatial_axes(D))


def irfftn(U, N):
    D = U.ndim - 1
    return np.fft.irfftn(U, s=(N,) * D, axes=spatial_axes(D))


def all_wavevectors(D, N, kmax=None):
    """all integer vectors with |k_d| <= kmax (default: below Nyquist)"""
    if kmax is None:
        kmax = (N - 1) // 2
    rng = range(-kmax, kmax + 1)
    return [list(k) for k in itertools.product(rng, repeat=D)]
