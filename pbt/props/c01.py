"""C01 - linear steppers advance band-limited states by the exact PDE solution."""

from __future__ import annotations

import copy
import math

import numpy as np
from hypothesis import strategies as st

import jax.numpy as jnp

from pbt import gens, oracles as orc, registry as reg
from pbt.core import R, Sub

RULE = (
    "Strata: every linear stepper class/variant (scalar, per-axis vector, SPD-matrix coefficients, both "
    "spatial-mixing flags, generic/normalized/difficulty families with lists up to order 8; wave speed in R incl. 0) x D in 1..3 x odd/even N, plus 1D production-size grids (512..6000). Per case "
    "Hypothesis draws coefficients, L, the stiffness Z = max|lambda*dt| in [1e-3, 1e7] (or a raw dt in "
    "[1e-6, 1e6]), the sign of dt, a Nyquist-free trigonometric polynomial and a step count n. dt is capped "
    "so that exp growth stays below e^30. Oracle: exp(dt*symbol(k)) with the symbol written from the "
    "documented PDE (wave: 2x2 propagator), applied to every stored mode below Nyquist and, in physical "
    "space, the closed-form solution of the trigonometric polynomial; semigroup S(dt)^n = S(n*dt) and "
    "reversal S(-dt)S(dt) = id (non-dissipative classes). Non-trivial: some non-DC mode of the state has "
    "|lambda*dt| > 1e-3 and the per-mode tolerance is below 1e-3 of the mode's amplitude (the comparison is "
    "informative); distinct = distinct serialised case."
)
ASSUMPTIONS = [
    "float64 session",
    "growth bounded by construction: max over all stored modes of Re(lambda*dt)*n <= 10 (e^10); FFT rounding noise of amplitude eps*|u| in every mode is amplified by that factor and is part of the tolerance",
    "phase tolerance scales with eps*|lambda*dt| (unavoidable rounding of the product dt*lambda)",
]

VARIANTS = [
    "adv_s", "adv_v",
    "diff_s", "diff_v", "diff_m",
    "advdiff_ss", "advdiff_vv", "advdiff_vm", "advdiff_sm",
    "disp_s0", "disp_s1", "disp_v0", "disp_v1",
    "hyp0", "hyp1",
    "wave",
    "genlin", "normlin", "difflin", "diffsimple",
]  # fmt: skip
GROWTH_CAP = 10.0
NON_DISSIPATIVE = {"adv_s", "adv_v", "disp_s0", "disp_s1", "disp_v0", "disp_v1", "wave"}


def strata(tier):
    if tier == "quick":
        ns = {1: [5, 12], 2: [5, 6], 3: [3, 4]}
    else:
        ns = {1: [3, 4, 7, 10, 17, 24, 33, 40], 2: [3, 4, 7, 8, 13, 16], 3: [3, 4, 5, 6, 9, 10]}
    out = []
    for v in VARIANTS:
        for D in (1, 2, 3):
            if D == 1 and v in ("adv_v", "diff_v", "diff_m", "advdiff_vv", "advdiff_vm", "advdiff_sm", "disp_v0", "disp_v1", "disp_s1", "hyp1"):
                # in 1D these coincide with the scalar/unmixed variant; keep one of each family
                if v not in ("adv_v", "diff_m", "disp_s1", "hyp1"):
                    continue
            for N in ns[D]:
                out.append(dict(id="%s-D%d-N%d" % (v, D, N), v=v, D=D, N=N))
            if tier != "quick" or D == 1 + (VARIANTS.index(v) % 3) or (D == 1 and v in ("adv_v", "diff_m", "disp_s1", "hyp1")):
                out.append(dict(id="%s-D%d-anyN" % (v, D), v=v, D=D, N="any"))  # grid size drawn from a wide range
        # production-size 1D grids: k^j of the highest modes exceeds 2^31 / 2^63 for the higher derivative orders
        out.append(dict(id="%s-D1-hugeN" % v, v=v, D=1, N="any", n_choices=[512, 1000, 1023, 2048, 3001, 4096, 6000]))
    return out


def vec(D, lo=0.1, hi=2.0, signed=True):
    e = gens.nonzero_coef(lo, hi) if signed else st.floats(lo, hi).map(lambda x: float("%.6g" % x))
    return st.lists(e, min_size=D, max_size=D)


def kw_strategy(v, D):
    pos = st.floats(0.01, 2.0).map(lambda x: float("%.6g" % x))
    sgn = st.sampled_from([1.0, 1.0, 1.0, -1.0])
    sc = gens.nonzero_coef(0.1, 2.0)
    if v == "adv_s":
        return st.fixed_dictionaries(dict(velocity=sc))
    if v == "adv_v":
        return st.fixed_dictionaries(dict(velocity=vec(D)))
    if v == "diff_s":
        return st.fixed_dictionaries(dict(diffusivity=st.tuples(pos, sgn).map(lambda t: t[0] * t[1])))
    if v == "diff_v":
        return st.fixed_dictionaries(dict(diffusivity=vec(D, 0.01, 2.0, signed=False)))
    if v == "diff_m":
        return st.fixed_dictionaries(dict(diffusivity=gens.st_rotation_spd(D)))
    if v == "advdiff_ss":
        return st.fixed_dictionaries(dict(velocity=sc, diffusivity=pos))
    if v == "advdiff_vv":
        return st.fixed_dictionaries(dict(velocity=vec(D), diffusivity=vec(D, 0.01, 2.0, signed=False)))
    if v == "advdiff_vm":
        return st.fixed_dictionaries(dict(velocity=vec(D), diffusivity=gens.st_rotation_spd(D)))
    if v == "advdiff_sm":
        return st.fixed_dictionaries(dict(velocity=sc, diffusivity=gens.st_rotation_spd(D)))
    if v.startswith("disp_"):
        mix = v.endswith("1")
        d = sc if v[5] == "s" else vec(D)
        return st.fixed_dictionaries(dict(dispersivity=d, advect_on_diffusion=st.just(mix)))
    if v.startswith("hyp"):
        return st.fixed_dictionaries(
            dict(
                hyper_diffusivity=st.tuples(pos, sgn).map(lambda t: t[0] * t[1]),
                diffuse_on_diffuse=st.just(v == "hyp1"),
            )
        )
    if v == "wave":
        # documented: c in R - positive, negative and exactly zero (every mode is then a zero-frequency mode)
        return st.fixed_dictionaries(dict(speed_of_sound=st.one_of(gens.nonzero_coef(0.1, 5.0), gens.nonzero_coef(0.1, 5.0), gens.nonzero_coef(0.1, 5.0), st.just(0.0))))
    coefs = st.lists(st.one_of(st.just(0.0), gens.nonzero_coef(0.01, 2.0)), min_size=1, max_size=9)
    if v == "genlin":
        return st.fixed_dictionaries(dict(linear_coefficients=coefs))
    if v == "normlin":
        return st.fixed_dictionaries(dict(normalized_linear_coefficients=coefs))
    if v == "difflin":
        return st.fixed_dictionaries(dict(linear_difficulties=coefs))
    if v == "diffsimple":
        return st.fixed_dictionaries(dict(difficulty=gens.nonzero_coef(0.1, 10.0), order=st.integers(0, 8)))
    raise KeyError(v)


CLS = dict(
    adv="Advection", diff="Diffusion", advdiff="AdvectionDiffusion", disp="Dispersion", hyp0="HyperDiffusion",
    hyp1="HyperDiffusion", wave="Wave", genlin="GeneralLinearStepper", normlin="NormalizedLinearStepper",
    difflin="DifficultyLinearStepper", diffsimple="DifficultyLinearStepperSimple",
)  # fmt: skip


def cls_of(v):
    return CLS[v.split("_")[0]]


def strategy(stratum, tier):
    v, D, N = stratum["v"], stratum["D"], stratum["N"]
    kmax = (N - 1) // 2
    C = 2 if v == "wave" else 1
    return st.fixed_dictionaries(
        dict(
            v=st.just(v),
            D=st.just(D),
            N=st.just(N),
            L=gens.st_L(extreme=True),
            kw=kw_strategy(v, D),
            stiff=st.one_of(
                st.fixed_dictionaries(dict(Z=gens.log_floats(1e-3, 1e7))),
                st.fixed_dictionaries(dict(dt=gens.log_floats(1e-6, 1e6))),
            ),
            dtsign=st.sampled_from([1.0, 1.0, 1.0, -1.0]),
            state=gens.st_trig(C, D, kmax, 1, 5),
            noise=gens.st_white(0.1, 2.0, kind="nyqfree"),
            n=st.integers(1, 8),
        )
    )


def _spec(case):
    return dict(cls=cls_of(case["v"]), D=case["D"], N=case["N"], L=case["L"], dt=1.0, kw=copy.deepcopy(case["kw"]))


def _lam(spec, kap):
    if spec["cls"] == "Wave":
        c = spec["kw"].get("speed_of_sound", 1.0)
        return 1j * c * np.sqrt((kap**2).sum(0))
    return reg.linear_symbol(spec, kap)


def finalize(case):
    """fix dt (or the coefficient scale of the normalized/difficulty classes) deterministically from
    the drawn stiffness; returns (spec, n)"""
    spec = _spec(case)
    D, N = spec["D"], spec["N"]
    n = case["n"]
    L, _ = reg.eff_L_dt(spec)
    kap = reg.kappa(D, N, L)
    mask = reg.below_nyquist_mask(D, N)
    lam = _lam(spec, kap)[mask]
    amax = float(np.max(np.abs(lam)))
    if amax == 0.0:
        amax = 1.0
    if "Z" in case["stiff"]:
        dt = case["stiff"]["Z"] / amax
    else:
        dt = case["stiff"]["dt"]
    dt = dt * case["dtsign"]
    # bound growth over ALL stored modes (rounding noise sits in every mode, Nyquist included):
    # max Re(lambda*dt)*n <= GROWTH_CAP
    g = float(np.max((_lam(spec, kap) * dt).real)) * n
    if g > GROWTH_CAP:
        dt = dt * GROWTH_CAP / g
    if spec["cls"] in reg.NO_L_DT:
        # no dt argument: scale the coefficient list instead (symbol is linear in it)
        kw = spec["kw"]
        for key in ("normalized_linear_coefficients", "linear_difficulties"):
            if key in kw:
                kw[key] = [float(x * dt) for x in kw[key]]
        if "difficulty" in kw:
            kw["difficulty"] = float(kw["difficulty"] * dt)
        spec["dt"] = 1.0
    else:
        spec["dt"] = float(dt)
    return spec, n


def scaled(spec, factor):
    """the same equation advanced by factor*dt"""
    s = copy.deepcopy(spec)
    if s["cls"] in reg.NO_L_DT:
        kw = s["kw"]
        for key in ("normalized_linear_coefficients", "linear_difficulties"):
            if key in kw:
                kw[key] = [float(x * factor) for x in kw[key]]
        if "difficulty" in kw:
            kw["difficulty"] = float(kw["difficulty"] * factor)
    else:
        s["dt"] = float(s["dt"] * factor)
    return s


def wave_exact_trig(modes_h, modes_v, X, L, c, t):
    D = X.shape[0]
    h = np.zeros(X.shape[1:])
    v = np.zeros(X.shape[1:])
    for which, modes in (("h", modes_h), ("v", modes_v)):
        for k, a, phi in modes:
            kap = [2 * math.pi * kk / L for kk in k]
            w = c * math.sqrt(sum(x * x for x in kap))
            theta = phi + sum(kap[d] * X[d] for d in range(D))
            cs = a * np.cos(theta)
            if which == "h":
                h = h + cs * math.cos(w * t)
                v = v - w * cs * math.sin(w * t)
            else:
                if w == 0.0:
                    h = h + t * cs
                else:
                    h = h + cs * math.sin(w * t) / w
                v = v + cs * math.cos(w * t)
    return np.stack([h, v])


def check(case):
    res = R()
    v = case["v"]
    spec, n = finalize(case)
    D, N = spec["D"], spec["N"]
    L, dt = reg.eff_L_dt(spec)
    key = "C01:%s:D%d" % (v, D)
    res.tag(v, "D%d" % D, "N%s" % ("odd" if N % 2 else "even"), "dt<0" if case["dtsign"] < 0 else "dt>0")
    kap = reg.kappa(D, N, L)
    mask = reg.below_nyquist_mask(D, N)
    lam = _lam(spec, kap)
    z = lam * dt
    zmag = reg.linear_symbol_mag(spec, kap) * abs(dt)  # rounding scale of z (no credit for cancellation)
    zmax = float(np.max(zmag[mask]))
    res.tag("Z=1e%d" % int(math.floor(math.log10(max(zmax, 1e-30)))))
    ok, S = res.lib("construct", reg.build, spec, key=key)
    if not ok:
        return res
    C = 2 if v == "wave" else 1
    X = orc.own_grid(D, N, L)
    u0 = orc.make_state(case["state"], C, D, N, L)
    amp = sum(abs(m[1]) for ch in case["state"]["modes"] for m in ch)

    # ---------- (a) every stored mode below Nyquist
    if v != "wave":
        ones = jnp.ones((1,) + kap.shape[1:], dtype=complex)
        ok, got = res.lib("step_fourier", S.step_fourier, ones, key=key)
        if ok:
            got = np.asarray(got)[0]
            want = np.exp(z)
            tol = 1e-12 * (1 + zmag) * np.maximum(1.0, np.abs(want))
            r = np.abs(got - want) / tol
            res.claim("every_mode", float(np.max(r[mask])), 1.0, key=key + ":every_mode")
    else:
        c = spec["kw"].get("speed_of_sound", 1.0)
        rng = np.random.default_rng(case["noise"]["seed"])
        shp = (2,) + kap.shape[1:]
        U = rng.standard_normal(shp) + 1j * rng.standard_normal(shp)
        ok, got = res.lib("step_fourier", S.step_fourier, jnp.asarray(U), key=key)
        if ok:
            got = np.asarray(got)
            w = c * np.sqrt((kap**2).sum(0))
            ws = np.where(w == 0, 1.0, w)
            h, vv = U[0], U[1]
            sinc = np.where(w == 0, dt, np.sin(w * dt) / ws)
            hw = np.cos(w * dt) * h + sinc * vv
            vw = -w * np.sin(w * dt) * h + np.cos(w * dt) * vv
            e = 1e-12 * (1 + np.abs(w * dt))
            tol_h = e * (np.abs(h) + np.abs(vv) * np.where(w == 0, abs(dt), 1 / np.abs(ws)))
            tol_v = e * (np.abs(w) * np.abs(h) + np.abs(vv))
            res.claim("every_mode:h", float(np.max((np.abs(got[0] - hw) / tol_h)[mask])), 1.0, key=key + ":every_mode")
            res.claim("every_mode:v", float(np.max((np.abs(got[1] - vw) / np.maximum(tol_v, 1e-300))[mask])), 1.0, key=key + ":every_mode")

    wave_factor = 1.0
    if v == "wave":
        la = np.abs(lam)
        wave_factor = max(1.0, float(la.max()), (1 / float(la[la > 0].min())) if np.any(la > 0) else 1.0, abs(dt) * n)
    # ---------- (b) physical space against the closed-form solution
    def exact(modes_by_channel, t):
        if v == "wave":
            return wave_exact_trig(modes_by_channel[0], modes_by_channel[1], X, L, spec["kw"].get("speed_of_sound", 1.0), t)
        out = np.zeros((N,) * D)
        for k, a, phi in modes_by_channel[0]:
            kv = np.asarray([2 * math.pi * kk / L for kk in k], dtype=float).reshape((D,) + (1,) * 0)
            lm = complex(_lam(spec, kv.reshape((D, 1)))[0])
            theta = phi + sum(kv[d] * X[d] for d in range(D))
            out = out + a * math.exp(lm.real * t) * np.cos(theta + lm.imag * t)
        return out[None]

    def tol_phys(t, nsteps=1):
        tot = 0.0
        nontriv = False
        for ci, ch in enumerate(case["state"]["modes"]):
            for k, a, phi in ch:
                kv = np.asarray([2 * math.pi * kk / L for kk in k], dtype=float).reshape((D, 1))
                lm = complex(_lam(spec, kv)[0])
                zz = lm * t
                zm = float(reg.linear_symbol_mag(spec, kv)[0]) * abs(t)
                g = max(1.0, math.exp(min(zz.real, 700)))
                scale = abs(a)
                if v == "wave":
                    w = abs(lm)
                    scale = abs(a) * (max(1.0, w) if ci == 0 else max(1.0, (1 / w if w > 0 else abs(t))))
                tot += scale * (1 + zm) * g
                if any(k) and abs(zz) > 1e-3 and zm < 1e8:
                    nontriv = True
        gall = math.exp(min(max(0.0, float(np.max((lam * t).real))), 700))
        noise = 1e-13 * amp * gall * N ** (D / 2) * (wave_factor if v == "wave" else 1.0)
        tol = 1e-11 * tot * nsteps + noise
        return tol, (nontriv and tol < 1e-3 * amp)

    ok, u1 = res.lib("call", S, jnp.asarray(u0), key=key)
    if ok:
        u1 = np.asarray(u1)
        tol, nt = tol_phys(dt)
        res.nontrivial = nt
        if res.true("call:shape", u1.shape == u0.shape, key=key, msg=str(u1.shape)):
            res.claim("physical", float(np.max(np.abs(u1 - exact(case["state"]["modes"], dt)))), tol, key=key + ":physical")

    # ---------- (c) semigroup: n calls with dt == one call with n*dt == exact solution at n*dt
    w0 = orc.make_state(case["noise"], C, D, N, L)
    ok, Sn = res.lib("construct", reg.build, scaled(spec, float(n)), key=key)
    if ok:
        a_ = jnp.asarray(w0)
        t_ = jnp.asarray(u0)
        for _ in range(n):
            a_ = S(a_)
            t_ = S(t_)
        b_ = Sn(jnp.asarray(w0))
        zn = z * n
        gmax = max(1.0, math.exp(min(float(np.max(zn.real[mask])), 700)))
        wmax = float(np.max(np.abs(lam[mask]))) if v == "wave" else 1.0
        wmin = float(np.min(np.abs(lam[mask])[np.abs(lam[mask]) > 0])) if (v == "wave" and np.any(np.abs(lam[mask]) > 0)) else 1.0
        wf = max(1.0, wmax, 1 / wmin, abs(dt) * n) if v == "wave" else 1.0
        tol = 1e-11 * np.max(np.abs(w0)) * N ** (D / 2) * (1 + n * zmax) * gmax * n * wf
        res.claim("semigroup", float(np.max(np.abs(np.asarray(a_) - np.asarray(b_)))), tol, key=key + ":semigroup")
        tolx, _ = tol_phys(dt * n, n)
        res.claim(
            "n_steps_vs_exact",
            float(np.max(np.abs(np.asarray(t_) - exact(case["state"]["modes"], dt * n)))),
            tolx,
            key=key + ":physical",
        )

    # ---------- (d) reversal for the non-dissipative equations
    if v in NON_DISSIPATIVE or (v in ("genlin", "normlin", "difflin", "diffsimple") and float(np.max(np.abs(z.real[mask]))) == 0.0):
        ok, Sm = res.lib("construct", reg.build, scaled(spec, -1.0), key=key)
        if ok:
            back = np.asarray(Sm(S(jnp.asarray(w0))))
            wf = 1.0
            if v == "wave":
                la = np.abs(lam[mask])
                wf = max(1.0, float(la.max()), 1 / float(la[la > 0].min()) if np.any(la > 0) else 1.0, abs(dt))
            tol = 1e-11 * np.max(np.abs(w0)) * N ** (D / 2) * (1 + zmax) * wf
            res.claim("reversal", float(np.max(np.abs(back - w0))), tol, key=key + ":reversal")
            res.tag("reversal")
    return res


SUBS = [Sub("linear_exact", check, strata=strata, strategy=strategy, n=(3, 25))]
