"""C05 - spectral differential operators are exact on band-limited fields."""

from __future__ import annotations

import math

import numpy as np
from hypothesis import strategies as st

import jax.numpy as jnp

import exponax as ex
from pbt import gens, oracles as orc
from pbt.core import R, Sub

RULE = (
    "Per (D, N) stratum Hypothesis draws Nyquist-free trigonometric polynomials (1-5 modes per channel, "
    "signed wavenumbers up to (N-1)//2 on every axis), C in 1..3, L, derivative order 1..6 / operator "
    "orders / Poisson order in {2,4}. Oracle: analytic partial derivatives of every mode evaluated by an "
    "own evaluator on an own grid; analytic symbols sum_d (i kappa_d)^p and c.(i kappa)^p; analytic "
    "Poisson solution -f_k/symbol per mode, plus the spectral residual of the returned field for "
    "Nyquist-free white noise right-hand sides. Non-trivial: at least two modes with different |k| and "
    "(for D>=2) one with a negative component on a leading axis."
)
ASSUMPTIONS = [
    "float64 session",
    "tolerance scales with the Nyquist symbol (pi N / L)^order because FFT rounding noise of all modes is amplified by the symbol of the highest mode",
]


def strata(tier):
    if tier == "quick":
        ns = {1: [5, 8, 16], 2: [5, 8], 3: [4, 5]}
    else:
        ns = {1: [3, 4, 5, 8, 13, 16, 27, 40], 2: [3, 4, 5, 8, 11, 16], 3: [3, 4, 5, 8, 9, 12]}
    return [dict(id="D%d-N%d" % (D, N), D=D, N=N) for D in (1, 2, 3) for N in ns[D]] + [dict(id="D%d-anyN" % D, D=D, N="any") for D in (1, 2, 3)]


def _nontrivial(chan_modes, D):
    ks = [tuple(m[0]) for ch in chan_modes for m in ch]
    norms = {sum(x * x for x in k) for k in ks}
    neg = D == 1 or any(any(x < 0 for x in k[:-1]) for k in ks)
    return len(norms) >= 2 and neg


def strat_deriv(stratum, tier):
    D, N = stratum["D"], stratum["N"]
    kmax = (N - 1) // 2
    return st.integers(1, 3).flatmap(
        lambda C: st.fixed_dictionaries(
            dict(
                D=st.just(D),
                N=st.just(N),
                C=st.just(C),
                L=gens.st_L(extreme=True),
                order=st.integers(1, 6),
                state=gens.st_trig(C, D, kmax, 1, 5),
            )
        )
    )


def check_deriv(case):
    D, N, C, L, order = (case[k] for k in ("D", "N", "C", "L", "order"))
    res = R()
    res.tag("D%d" % D, "C%d" % C, "order%d" % order, "N%s" % ("odd" if N % 2 else "even"))
    res.nontrivial = _nontrivial(case["state"]["modes"], D)
    X = orc.own_grid(D, N, L)
    u = orc.make_state(case["state"], C, D, N, L)
    key = "C05:derivative:D%d" % D
    ok, du = res.lib("derivative", ex.derivative, jnp.asarray(u), L, order=order, key=key)
    if not ok:
        return res
    du = np.asarray(du)
    want_shape = (D,) + (N,) * D if C == 1 else (C, D) + (N,) * D
    if not res.true("derivative:layout", du.shape == want_shape, key=key + ":layout", msg="%s vs %s" % (du.shape, want_shape)):
        return res
    if C == 1:
        du = du[None]
    sym = (math.pi * N / L) ** order
    for c in range(C):
        amp = sum(abs(m[1]) for m in case["state"]["modes"][c])
        tol = 1e-11 * amp * sym
        for d in range(D):
            dv = [0] * D
            dv[d] = order
            want = orc.eval_trig(case["state"]["modes"][c], X, L, deriv=dv)
            res.claim(
                "derivative:value",
                np.max(np.abs(du[c, d] - want)),
                tol,
                key=key + (":order%d" % order),
                msg="channel %d axis %d" % (c, d),
            )
    # homogeneity: differentiation is linear - a field of amplitude 1e-18 or 1e12 is differentiated just the same (no
    # absolute "noise floor")
    for cs in (1e-18, 1e12):
        ok, dus = res.lib("derivative", ex.derivative, jnp.asarray(cs * u), L, order=order, key=key)
        if ok:
            dus = np.asarray(dus)
            dus = dus[None] if C == 1 else dus
            ref_ = float(np.max(np.abs(du))) + 1e-300
            amp_all = max(sum(abs(m[1]) for m in ch) for ch in case["state"]["modes"])
            res.claim("derivative:homogeneous", float(np.max(np.abs(dus / cs - du))), 1e-9 * ref_ + 1e-11 * amp_all * sym, key=key + ":homogeneity", msg="scale %g" % cs)
    if order == 1:
        # default order argument
        d1 = np.asarray(ex.derivative(jnp.asarray(u), L))
        res.claim("derivative:default_order", np.max(np.abs((d1[None] if C == 1 else d1) - du)), 0.0, key=key)
    return res


def strat_ops(stratum, tier):
    D, N = stratum["D"], stratum["N"]
    kmax = (N - 1) // 2
    return st.fixed_dictionaries(
        dict(
            D=st.just(D),
            N=st.just(N),
            L=gens.st_L(extreme=True),
            lap_order=st.sampled_from([2, 4, 6, 8]),
            grad_order=st.sampled_from([1, 3, 5]),
            velocity=st.lists(gens.coef(-2, 2), min_size=D, max_size=D),
            state=gens.st_trig(1, D, kmax, 1, 5),
        )
    )


def check_ops(case):
    D, N, L = case["D"], case["N"], case["L"]
    p, q = case["lap_order"], case["grad_order"]
    res = R()
    res.tag("D%d" % D, "lap%d" % p, "grad%d" % q)
    res.nontrivial = _nontrivial(case["state"]["modes"], D)
    key = "C05:operators:D%d" % D
    kap = 2 * math.pi / L * orc.rfft_wavenumbers(D, N)
    dop = ex.spectral.build_derivative_operator(D, L, N)
    nyq = (math.pi * N / L)
    ok, lap = res.lib("laplace", ex.spectral.build_laplace_operator, dop, order=p, key=key)
    if ok:
        lap = np.asarray(lap)
        want = ((1j * kap) ** p).sum(0)[None]
        if res.true("laplace:shape", lap.shape == want.shape, key=key, msg=str(lap.shape)):
            res.claim("laplace:symbol", np.max(np.abs(lap - want)), 1e-12 * D * nyq**p, key=key + ":laplace")
    if p == 2:
        lap_default = np.asarray(ex.spectral.build_laplace_operator(dop))
        res.claim("laplace:default_is_order2", np.max(np.abs(lap_default - lap)), 0.0, key=key)
    c = np.asarray(case["velocity"], dtype=float)
    ok, gop = res.lib(
        "gradient_inner_product", ex.spectral.build_gradient_inner_product_operator, dop, jnp.asarray(c), order=q, key=key
    )
    if ok:
        gop = np.asarray(gop)
        want = np.tensordot(c, (1j * kap) ** q, axes=1)[None]
        if res.true("gradient_inner_product:shape", gop.shape == want.shape, key=key, msg=str(gop.shape)):
            res.claim(
                "gradient_inner_product:symbol",
                np.max(np.abs(gop - want)),
                1e-12 * np.sum(np.abs(c)) * nyq**q + 1e-300,
                key=key + ":gradient_inner_product",
            )
    # applied to a field: ifft(op * fft(u)) equals the analytic differential operator
    X = orc.own_grid(D, N, L)
    modes = case["state"]["modes"][0]
    u = orc.make_state(case["state"], 1, D, N, L)
    amp = sum(abs(m[1]) for m in modes)
    uh = ex.fft(jnp.asarray(u))
    if ok:
        got = np.asarray(ex.ifft(jnp.asarray(gop) * uh, num_spatial_dims=D, num_points=N))
        want = sum(c[d] * orc.eval_trig(modes, X, L, deriv=[q if e == d else 0 for e in range(D)]) for d in range(D))
        res.claim("gradient_inner_product:applied", np.max(np.abs(got[0] - want)), 1e-11 * amp * np.sum(np.abs(c)) * nyq**q + 1e-300, key=key + ":gradient_inner_product")
    got = np.asarray(ex.ifft(jnp.asarray(lap) * uh, num_spatial_dims=D, num_points=N))
    want = sum(orc.eval_trig(modes, X, L, deriv=[p if e == d else 0 for e in range(D)]) for d in range(D))
    res.claim("laplace:applied", np.max(np.abs(got[0] - want)), 1e-11 * amp * D * nyq**p, key=key + ":laplace")
    return res


def strat_poisson(stratum, tier):
    D, N = stratum["D"], stratum["N"]
    kmax = (N - 1) // 2
    return st.integers(1, 3).flatmap(
        lambda C: st.fixed_dictionaries(
            dict(
                D=st.just(D),
                N=st.just(N),
                C=st.just(C),
                L=gens.st_L(extreme=True),
                order=st.sampled_from([2, 4]),
                state=gens.st_trig(C, D, kmax, 1, 5),
                mean=gens.coef(-2, 2),
                noise=gens.st_white(0.1, 2.0, kind="nyqfree"),
            )
        )
    )


def check_poisson(case):
    D, N, C, L, order = (case[k] for k in ("D", "N", "C", "L", "order"))
    res = R()
    res.tag("D%d" % D, "C%d" % C, "poisson%d" % order)
    res.nontrivial = _nontrivial(case["state"]["modes"], D)
    key = "C05:poisson:D%d:order%d" % (D, order)
    X = orc.own_grid(D, N, L)
    ok, P = res.lib("construct", lambda: ex.poisson.Poisson(D, L, N, order=order), key=key)
    if not ok:
        return res
    f = orc.make_state(case["state"], C, D, N, L) + case["mean"]
    ok, u = res.lib("solve", P, jnp.asarray(f), key=key)
    if not ok:
        return res
    u = np.asarray(u)
    if not res.true("poisson:shape", u.shape == f.shape, key=key, msg=str(u.shape)):
        return res
    kmin = 2 * math.pi / L
    for c in range(C):
        want = np.zeros((N,) * D)
        scale = 0.0
        for k, a, phi in case["state"]["modes"][c]:
            kap = [2 * math.pi * x / L for x in k]
            s = sum((1j * x) ** order for x in kap)
            if s == 0:
                continue  # DC content: removed (zero-mean convention)
            want = want + orc.eval_trig([[k, -a / s.real, phi]], X, L)
            scale += abs(a / s.real)
        amp = sum(abs(m[1]) for m in case["state"]["modes"][c]) + abs(case["mean"])
        tol = 1e-11 * (scale + amp / kmin**order)
        res.claim("poisson:solution", np.max(np.abs(u[c] - want)), tol, key=key)
        res.claim("poisson:zero_mean", abs(np.mean(u[c])), tol, key=key + ":mean")
    # residual for arbitrary Nyquist-free right-hand sides (own spectral operator)
    g = orc.make_state(case["noise"], C, D, N, L) + case["mean"]
    ok, w = res.lib("solve", P, jnp.asarray(g), key=key)
    if ok:
        w = np.asarray(w)
        kap = 2 * math.pi / L * orc.fft_wavenumbers(D, N)
        sym = ((1j * kap) ** order).sum(0)
        W = np.fft.fftn(w, axes=orc.spatial_axes(D))
        opw = np.fft.ifftn(sym * W, axes=orc.spatial_axes(D)).real
        gm = g - g.mean(axis=orc.spatial_axes(D), keepdims=True)
        nyq = math.pi * N / L
        tol = 1e-11 * np.max(np.abs(g)) * N ** (D / 2) * (nyq / kmin) ** order
        res.claim("poisson:residual", np.max(np.abs(opw + gm)), tol, key=key)
        res.claim(
            "poisson:zero_mean_noise",
            np.max(np.abs(w.mean(axis=orc.spatial_axes(D)))),
            1e-11 * np.max(np.abs(g)) / kmin**order,
            key=key + ":mean",
        )
    return res


SUBS = [
    Sub("derivative", check_deriv, strata=strata, strategy=strat_deriv, n=(12, 50), reps=(2, 4)),
    Sub("operators", check_ops, strata=strata, strategy=strat_ops, n=(8, 40), reps=(2, 3)),
    Sub("poisson", check_poisson, strata=strata, strategy=strat_poisson, n=(8, 40), reps=(2, 3)),
]
