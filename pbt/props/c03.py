"""C03 - nonlinear terms equal the alias-free projection of the documented operator."""

from __future__ import annotations

import math

import numpy as np
from hypothesis import strategies as st

import jax.numpy as jnp

import exponax as ex
from exponax.stepper.reaction._cahn_hilliard import CahnHilliardNonlinearFun
from exponax.stepper.reaction._gray_scott import GrayScottNonlinearFun
from pbt import gens, oracles as orc
from pbt.core import R, Sub

RULE = (
    "Strata: every nonlinear-function variant (4 convection forms, gradient norm +- zero_mode_fix, "
    "polynomial deg<=2 and deg 3, general nonlinear, 2D vorticity convection, 3D projected convection, "
    "Cahn-Hilliard, Gray-Scott) x D (where defined) x EVERY N of a contiguous range (all residues mod 12). "
    "Hypothesis draws white-noise states (content up to Nyquist), scales/coefficients, L and the fraction "
    "(2/3 or 1/2 for quadratic terms, 1/2 for cubic terms). Oracle: the state is truncated to the "
    "documented band |k|_inf <= fraction*(N//2)-1, embedded into a 4N grid, the documented continuous "
    "operator is evaluated pointwise there with exact spectral derivatives, and the result is truncated "
    "to the band. Claims: equality on the band, exact zero outside. Non-trivial: band cut-off K >= 1, "
    "oracle output not negligible, and the state has energy above the band (so dealiasing matters)."
)
ASSUMPTIONS = [
    "float64 session",
    "2D vorticity convection: velocity (psi_y, -psi_x) with psi the zero-mean inverse Laplacian of the vorticity",
    "tolerance 1e-11*(N^D * magnitude of the un-cancelled terms * kappa_K^(outer derivative order))",
]

VARIANTS = [
    # name, dims, degree, channels(D)
    ("conv_multi_noncons", (1, 2, 3)),
    ("conv_multi_cons", (1, 2, 3)),
    ("conv_single_noncons", (1, 2, 3)),
    ("conv_single_cons", (1, 2, 3)),
    ("gradnorm_fix", (1, 2, 3)),
    ("gradnorm_nofix", (1, 2, 3)),
    ("poly2", (1, 2, 3)),
    ("poly3", (1, 2, 3)),
    ("general", (1, 2, 3)),
    ("vorticity2d", (2,)),
    ("projected3d", (3,)),
    ("cahn_hilliard", (1, 2, 3)),
    ("gray_scott", (1, 2, 3)),
]
CUBIC = {"poly3", "cahn_hilliard", "gray_scott"}


def strata(tier):
    if tier == "quick":
        ns = {1: list(range(6, 18)), 2: list(range(6, 13)), 3: list(range(6, 10))}
    else:
        ns = {1: list(range(6, 31)), 2: list(range(6, 19)), 3: list(range(6, 18))}
    out = []
    for v, dims in VARIANTS:
        for D in dims:
            for N in ns[D]:
                out.append(dict(id="%s-D%d-N%d" % (v, D, N), v=v, D=D, N=N))
            out.append(dict(id="%s-D%d-anyN" % (v, D), v=v, D=D, N="any", n_min=6, n_max={1: 200, 2: 36, 3: 14}[D] if tier == "quick" else {1: 400, 2: 64, 3: 20}[D]))
    return out


def nchan(v, D):
    if v in ("conv_multi_noncons", "conv_multi_cons", "projected3d"):
        return D
    if v == "gray_scott":
        return 2
    return 1


def strategy(stratum, tier):
    v, D, N = stratum["v"], stratum["D"], stratum["N"]
    frac = st.just("1/2") if v in CUBIC else st.sampled_from(["2/3", "2/3", "1/2"])
    sc = gens.nonzero_coef(0.1, 3.0)
    if v == "poly2":
        params = st.fixed_dictionaries(dict(coefficients=st.lists(gens.coef(-2, 2), min_size=1, max_size=3)))
    elif v == "poly3":
        params = st.fixed_dictionaries(dict(coefficients=st.tuples(gens.coef(-2, 2), gens.coef(-2, 2), gens.coef(-2, 2), sc).map(list)))
    elif v == "general":
        params = st.fixed_dictionaries(dict(scale_list=st.lists(st.one_of(st.just(0.0), sc), min_size=3, max_size=3), zero_mode_fix=st.booleans()))
    elif v == "gray_scott":
        params = st.fixed_dictionaries(dict(feed_rate=st.floats(0.01, 1.0), kill_rate=st.floats(0.01, 1.0)))
    else:
        params = st.fixed_dictionaries(dict(scale=sc))
    return st.fixed_dictionaries(
        dict(
            v=st.just(v),
            D=st.just(D),
            N=st.just(N),
            L=gens.st_L(0.2, 50.0, extreme=True),
            frac=frac,
            params=params,
            state=gens.st_white(0.2, 2.0),
            mean=st.one_of(st.just(0.0), gens.nonzero_coef(0.1, 1.0)),
        )
    )


def build_fun(v, D, N, L, frac, p):
    dop = ex.spectral.build_derivative_operator(D, L, N)
    NF = ex.nonlin_fun
    if v.startswith("conv_"):
        return NF.ConvectionNonlinearFun(
            D, N, derivative_operator=dop, dealiasing_fraction=frac, scale=p["scale"],
            single_channel="single" in v, conservative=v.endswith("_cons"),
        )  # fmt: skip
    if v.startswith("gradnorm"):
        return NF.GradientNormNonlinearFun(D, N, derivative_operator=dop, dealiasing_fraction=frac, zero_mode_fix=v == "gradnorm_fix", scale=p["scale"])
    if v in ("poly2", "poly3"):
        return NF.PolynomialNonlinearFun(D, N, dealiasing_fraction=frac, coefficients=tuple(p["coefficients"]))
    if v == "general":
        return NF.GeneralNonlinearFun(D, N, derivative_operator=dop, dealiasing_fraction=frac, scale_list=tuple(p["scale_list"]), zero_mode_fix=p["zero_mode_fix"])
    if v == "vorticity2d":
        return NF.VorticityConvection2d(D, N, convection_scale=p["scale"], derivative_operator=dop, dealiasing_fraction=frac)
    if v == "projected3d":
        return NF.ProjectedConvection3d(D, N, derivative_operator=dop, dealiasing_fraction=frac)
    if v == "cahn_hilliard":
        return CahnHilliardNonlinearFun(D, N, derivative_operator=dop, scale=p["scale"], dealiasing_fraction=frac)
    if v == "gray_scott":
        return GrayScottNonlinearFun(D, N, dealiasing_fraction=frac, feed_rate=p["feed_rate"], kill_rate=p["kill_rate"])
    raise KeyError(v)


def oracle_fine(v, f, D, M, L, p):
    """documented continuous operator on the fine grid.
    returns (result (C_out, M..M), magnitude of un-cancelled terms, outer derivative order)"""
    mx = lambda a: float(np.max(np.abs(a)))  # noqa: E731
    if v.startswith("conv_"):
        b = p["scale"]
        g = orc.grad_fine(f, D, M, L)  # (C, D, M..)
        if v == "conv_multi_noncons":
            out = -b * np.einsum("j...,ij...->i...", f, g)
            return out, abs(b) * D * mx(f) * mx(g), 0
        if v == "conv_multi_cons":
            outer = f[:, None] * f[None, :]  # (i, j)
            out = np.zeros_like(f)
            for i in range(D):
                gi = orc.grad_fine(outer[i], D, M, L)  # (j, d, ...)
                out[i] = -0.5 * b * sum(gi[j, j] for j in range(D))
            return out, abs(b) * D * mx(f) * mx(g), 0
        if v == "conv_single_noncons":
            out = -b * f * g[:, :].sum(axis=1)
            return out, abs(b) * D * mx(f) * mx(g), 0
        if v == "conv_single_cons":
            g2 = orc.grad_fine(f**2, D, M, L)
            return -0.5 * b * g2.sum(axis=1), abs(b) * D * mx(f) * mx(g), 0
    if v.startswith("gradnorm"):
        b = p["scale"]
        g = orc.grad_fine(f, D, M, L)
        q = (g**2).sum(axis=1)
        if v == "gradnorm_fix":
            q = q - q.mean(axis=orc.spatial_axes(D), keepdims=True)
        return -0.5 * b * q, abs(b) * D * mx(g) ** 2, 0
    if v in ("poly2", "poly3"):
        out = np.zeros_like(f)
        mag = 0.0
        for k, c in enumerate(p["coefficients"]):
            out = out + c * f**k
            mag += abs(c) * mx(f) ** k
        return out, mag, 0
    if v == "general":
        b0, b1, b2 = p["scale_list"]
        g = orc.grad_fine(f, D, M, L)
        g2 = orc.grad_fine(f**2, D, M, L)
        q = (g**2).sum(axis=1)
        if p["zero_mode_fix"]:
            q = q - q.mean(axis=orc.spatial_axes(D), keepdims=True)
        out = b0 * f**2 + 0.5 * b1 * g2.sum(axis=1) + 0.5 * b2 * q
        return out, abs(b0) * mx(f) ** 2 + abs(b1) * D * mx(f) * mx(g) + abs(b2) * D * mx(g) ** 2, 0
    if v == "vorticity2d":
        b = p["scale"]
        psi = orc.lap_inv_fine(f, D, M, L)
        gp = orc.grad_fine(psi, D, M, L)  # (1, 2, ...)
        gw = orc.grad_fine(f, D, M, L)
        uu, vv = gp[:, 1], -gp[:, 0]
        return -b * (uu * gw[:, 0] + vv * gw[:, 1]), abs(b) * 2 * mx(gp) * mx(gw), 0
    if v == "projected3d":
        g = orc.grad_fine(f, D, M, L)  # g[i, j] = d_j f_i
        w = np.stack([g[2, 1] - g[1, 2], g[0, 2] - g[2, 0], g[1, 0] - g[0, 1]])
        c = np.stack([f[1] * w[2] - f[2] * w[1], f[2] * w[0] - f[0] * w[2], f[0] * w[1] - f[1] * w[0]])
        return c, 2 * mx(f) * mx(w) * 3, 0
    if v == "cahn_hilliard":
        s = p["scale"]
        return s * f**3, abs(s) * mx(f) ** 3, 2
    if v == "gray_scott":
        fr, kr = p["feed_rate"], p["kill_rate"]
        a, b_ = f[0], f[1]
        out = np.stack([fr * (1 - a) - a * b_**2, -(fr + kr) * b_ + a * b_**2])
        return out, fr * (1 + mx(a)) + (fr + kr) * mx(b_) + mx(a) * mx(b_) ** 2, 0
    raise KeyError(v)


def _flat(p):
    out = []
    for x in p.values():
        if isinstance(x, (list, tuple)):
            out.extend(float(y) for y in x)
        elif isinstance(x, bool):
            continue
        else:
            out.append(float(x))
    return out


def check(case):
    v, D, N, L = case["v"], case["D"], case["N"], case["L"]
    frac = 2 / 3 if case["frac"] == "2/3" else 1 / 2
    p = case["params"]
    res = R()
    key = "C03:%s:D%d" % (v, D)
    C = nchan(v, D)
    K = orc.cutoff_K(N, frac)
    res.tag(v, "D%d" % D, "Nmod12=%d" % (N % 12), "frac=" + case["frac"], "K=%d" % K if K < 2 else "K>=2")
    u = orc.make_state(case["state"], C, D, N) + case["mean"]
    ok, nf = res.lib("construct", build_fun, v, D, N, L, frac, p, key=key)
    if not ok:
        return res
    uh = orc.rfftn(u)
    ok, got = res.lib("call", nf, jnp.asarray(uh), key=key)
    if not ok:
        return res
    got = np.asarray(got)
    # ---- oracle
    M = 4 * N
    U = orc.full_of_real(u)
    f = orc.to_fine(U, D, N, M, K)
    out_f, mag, outer = oracle_fine(v, f, D, M, L, p)
    W = orc.from_fine(out_f, D, N, M, K)
    kapK = 2 * math.pi * max(K, 1) / L
    if v == "cahn_hilliard":
        kap = 2 * math.pi / L * orc.fft_wavenumbers(D, N)
        W = W * (-(kap**2).sum(0))
    if v == "projected3d":
        kk = orc.fft_wavenumbers(D, N)
        k2 = (kk**2).sum(0)
        k2s = np.where(k2 == 0, 1.0, k2)
        W = W - kk * (kk * W).sum(0) / k2s
    want = orc.half_of_full(W)
    Cout = want.shape[0]
    if not res.true("shape", got.shape == want.shape, key=key, msg="%s vs %s" % (got.shape, want.shape)):
        return res
    S = N**D * mag * kapK**outer
    # absolute floor: for degenerate bands (K = 0) the oracle's un-cancelled magnitude is itself
    # rounding noise while the library returns rounding noise of the full state's scale
    pmax = max([abs(x) for x in _flat(p)] + [1.0])
    floor = N**D * pmax * (1 + float(np.max(np.abs(u)))) ** 3 * (1 + math.pi * N / L) ** 2
    tol = 1e-11 * S + 1e-14 * floor
    kh = orc.rfft_wavenumbers(D, N)
    inband = np.all(np.abs(kh) <= K, axis=0)
    err = np.abs(got - want)
    res.claim("band:equals_alias_free_operator", float(np.max(err[:, inband])) if inband.any() else 0.0, tol, key=key + ":band")
    res.claim("outside_band:exact_zero", float(np.max(np.abs(got[:, ~inband]))) if (~inband).any() else 0.0, 0.0, key=key + ":outside")
    # energy above the band present in the input (dealiasing matters) and non-negligible output
    Uh = np.abs(uh)
    res.nontrivial = bool(K >= 1 and np.max(np.abs(want)) > 1e-6 * S and np.max(Uh[:, ~inband]) > 1e-3 * np.max(Uh))
    return res


SUBS = [Sub("alias_free", check, strata=strata, strategy=strategy, n=(2, 8))]
