"""C02 - ETDRK steppers realise the order-p exponential Runge-Kutta scheme exactly."""

from __future__ import annotations

import math

import numpy as np
from hypothesis import strategies as st

import jax.numpy as jnp

import exponax as ex
from pbt import configs, gens, model, oracles as orc, registry as reg
from pbt.core import R, Sub

RULE = (
    "A (integrator level): public ETDRK0-4 classes with a row of generated symbols z = lambda*dt per "
    "stratum (exact zero, real -1e-12..-1e9, real +1e-12..+20, imaginary +-1e-12..1e6, left half plane, "
    "Re>0 with Im != 0), user-defined per-mode nonlinearities and the built-in convection term, contour "
    "options (radius, points); oracle: Cox-Matthews ETDRK-p with exact phi functions (Taylor/closed form, "
    "cross-checked at start-up). B (stepper level): every semi-linear stepper family x D x order 0-4 x "
    "contour options x dealiasing fraction, white-noise states; oracle: documented symbol + documented "
    "nonlinear term + the same reference integrator. C: measured convergence order against "
    "scipy.solve_ivp(DOP853, 1e-13) on smooth problems (corroboration; a low slope counts only together "
    "with a step mismatch). Non-trivial: |z| spread over >= 3 decades or a zero/complex stratum (A); "
    "nonlinear contribution dt*|N|/|u| > 1e-6 (B); distinct = distinct serialised case. Siblings: two "
    "configurations that differ in exactly one constructor argument (order, dt, L, one coefficient, fraction, "
    "contour, N, one flag) are built and called in the history A, B, A (old object), A (fresh object); every "
    "call is compared with the reference model of its own configuration (state leaking between objects/calls)."
)
ASSUMPTIONS = [
    "float64 session",
    "contour options restricted to (radius, points) pairs whose trapezoid-rule truncation error radius^M/M! is below 1e-13",
    "the nonlinear term used by the reference is the public exponax nonlinear-function class with the documented parameters (its own correctness is property C03)",
]

orc.selftest_phi()


# ------------------------------------------------------------------ A: integrator level


class PerModeQuadratic(ex.nonlin_fun.BaseNonlinearFun):
    """user-defined nonlinearity acting per Fourier mode: a*u^2 - b*conj(u) + c"""

    a: float
    b: float
    c: float

    def __init__(self, a, b, c):
        super().__init__(1, 4)
        self.a = a
        self.b = b
        self.c = c

    def __call__(self, u_hat):
        return self.a * u_hat**2 - self.b * jnp.conj(u_hat) + self.c


class PerModeCubic(ex.nonlin_fun.BaseNonlinearFun):
    a: float
    b: float
    c: float

    def __init__(self, a, b, c):
        super().__init__(1, 4)
        self.a = a
        self.b = b
        self.c = c

    def __call__(self, u_hat):
        return self.a * u_hat - self.b * u_hat**3 / (1 + jnp.abs(u_hat) ** 2) + 1j * self.c * u_hat


Z_STRATA = ["zero", "real_neg", "real_pos", "imag", "left_half", "right_complex", "special", "mixed"]
SPECIAL_Z = [-1.0, -0.5, -2.0, -1.5, -0.25, -4.0, -3.0, 1j, -1j, 0.5j, -0.5j, 2j, -2j, 1.5j, -1.5j, -1 + 1j, -1 - 1j, 1.0, 0.5, 2.0, 0.0]
NONLINS = ["quad", "cubic", "conv"]
NMODES = 9  # = N//2+1 for N = 16 (needed by the convection variant)


def a_strata(tier):
    return [
        dict(id="%s-p%d-%s" % (z, p, nl), z=z, order=p, nl=nl)
        for z in Z_STRATA
        for p in range(0, 5)
        for nl in NONLINS
        if not (p == 0 and nl != "quad")
    ]


def _z_of(kind, e, t):
    """map two uniform numbers (e, t in [0,1]) to a symbol z of the stratum"""
    if kind == "zero":
        return 0.0 + 0.0j
    if kind == "real_neg":
        return -(10.0 ** (-12 + 21 * e)) + 0.0j
    if kind == "real_pos":
        return 10.0 ** (-12 + (12 + math.log10(20.0)) * e) + 0.0j
    if kind == "imag":
        return (1.0 if t < 0.5 else -1.0) * 1j * 10.0 ** (-12 + 18 * e)
    if kind == "left_half":
        th = math.pi / 2 + math.pi * (0.002 + 0.996 * t)
        return 10.0 ** (-6 + 12 * e) * complex(math.cos(th), math.sin(th))
    if kind == "right_complex":
        return complex(20.0 * e + 1e-3, (1.0 if t < 0.5 else -1.0) * 10.0 ** (-1 + 4 * abs(2 * t - 1)))
    raise KeyError(kind)


def a_strategy(stratum, tier):
    u01 = st.floats(0.0, 1.0, allow_nan=False).map(lambda x: float("%.5g" % x))
    return st.fixed_dictionaries(
        dict(
            z=st.just(stratum["z"]),
            order=st.just(stratum["order"]),
            nl=st.just(stratum["nl"]),
            et=st.lists(st.tuples(u01, u01).map(list), min_size=NMODES, max_size=NMODES),
            kinds=st.lists(st.sampled_from(Z_STRATA[:6]), min_size=NMODES, max_size=NMODES),
            dt=gens.log_floats(1e-3, 50.0),
            abc=st.lists(gens.coef(-1.5, 1.5), min_size=3, max_size=3),
            seed=gens.st_seed(),
            amp=st.floats(0.1, 2.0).map(lambda x: float("%.4g" % x)),
            contour=st.sampled_from(configs.CONTOURS),
            # a real (diffusive) symbol may be handed over as a real-dtype array (e.g. -nu*k**2)
            real_dtype=st.booleans(),
        )
    )


def a_check(case):
    res = R()
    p, nl, dt = case["order"], case["nl"], case["dt"]
    kinds = case["kinds"] if case["z"] == "mixed" else [case["z"]] * NMODES
    if case["z"] == "special":
        # exact values on / near the contour circle of radius r (a contour node on the pole lr = 0 gives NaN)
        r_ = case["contour"][0]
        sp = SPECIAL_Z + [-r_, -2 * r_, -r_ / 2, 1j * r_, -1j * r_, r_]
        perm_ = np.random.default_rng(case["seed"]).permutation(len(sp))
        z = np.array([sp[i] for i in perm_[:NMODES]], dtype=complex)
    else:
        z = np.array([_z_of(k, e, t) for k, (e, t) in zip(kinds, case["et"])], dtype=complex)
    lam = (z / dt)[None, :]
    res.tag("A", case["z"], "order%d" % p, nl, "r=%g,M=%d" % tuple(case["contour"]))
    key = "C02:integrator:order%d:%s" % (p, case["z"])
    az = np.abs(z[z != 0])
    spread = (math.log10(az.max() / az.min()) if az.size else 0.0)
    res.nontrivial = bool(spread >= 3 or case["z"] in ("zero", "mixed", "right_complex", "left_half", "special"))
    a, b, c = case["abc"]
    if nl == "quad":
        nf = PerModeQuadratic(a, b, c)
    elif nl == "cubic":
        nf = PerModeCubic(a, b, c)
    else:
        N = 2 * (NMODES - 1)
        nf = ex.nonlin_fun.ConvectionNonlinearFun(1, N, derivative_operator=ex.spectral.build_derivative_operator(1, 2 * math.pi, N), scale=a if a != 0 else 1.0)
    radius, M = case["contour"]
    cls = [ex.etdrk.ETDRK0, ex.etdrk.ETDRK1, ex.etdrk.ETDRK2, ex.etdrk.ETDRK3, ex.etdrk.ETDRK4][p]
    lam_arg = lam
    if case.get("real_dtype") and not np.any(lam.imag != 0):
        lam_arg = np.ascontiguousarray(lam.real)
        res.tag("real_dtype_operator")
        key = key + ":real_dtype"
    if p == 0:
        ok, integ = res.lib("construct", cls, dt, jnp.asarray(lam_arg), key=key)
    else:
        ok, integ = res.lib("construct", cls, dt, jnp.asarray(lam_arg), nf, num_circle_points=M, circle_radius=radius, key=key)
    if not ok:
        return res
    rng = np.random.default_rng(case["seed"])
    U = case["amp"] * (rng.standard_normal((1, NMODES)) + 1j * rng.standard_normal((1, NMODES)))
    if nl == "conv":
        U = U * 2.0  # unnormalised spectrum of an O(1) field on 16 points
    ok, got = res.lib("step_fourier", integ.step_fourier, jnp.asarray(U), key=key)
    if not ok:
        return res
    got = np.asarray(got)
    acc = [np.zeros(U.shape)]
    floor = [0.0]

    def N_np(x):
        out = np.asarray(nf(jnp.asarray(x)))
        acc[0] = np.maximum(acc[0], np.abs(out))
        if nl == "conv":
            # rounding floor of the pseudo-spectral product: the physical field is bounded by P = sum 2|x_k|/N, its
            # square carries absolute rounding errors eps*P^2 per grid point, which come back into every stored
            # (unnormalised) mode multiplied by at most N * |scale|/2 * k_max - also into modes whose exact value is
            # small because of cancellation
            N_ = 2 * (NMODES - 1)
            P = float(np.sum(2 * np.abs(x)) / N_)
            floor[0] = max(floor[0], 2.2e-16 * P * P * N_ * 0.5 * abs(a if a != 0 else 1.0) * (N_ // 2))
        return out

    want = orc.etdrk_ref(p, dt, lam, U, N_np)
    with np.errstate(over="ignore"):
        E = np.maximum(1.0, np.abs(np.exp(np.minimum((lam * dt).real, 700))))
    scale = E * (np.abs(U) + dt * 4 * acc[0])
    if nl == "conv":
        scale = np.full_like(scale, float(np.max(scale)))  # modes are coupled: global scale
    tol = 1e-10 * (1 + 1e-3 * np.abs(z)[None, :]) * scale + 1e-300
    if nl == "conv" and p > 0:
        # largest coefficient that multiplies a nonlinear evaluation (<= max(1, e^Re z))
        with np.errstate(over="ignore", invalid="ignore"):
            zc = z[None, :]
            cm = np.nanmax(np.abs(np.stack([orc.phi1(zc), orc.phi2(zc), orc.cm_f1(zc), 4 * orc.cm_f2(zc), orc.cm_f3(zc), orc.phi1(zc / 2) / 2])), axis=0)
        tol = tol + 10 * dt * np.where(np.isfinite(cm), cm, E) * floor[0]
    r = np.abs(got - want) / tol
    res.true("finite", bool(np.all(np.isfinite(got))), key=key + ":finite")
    res.claim("step_equals_cox_matthews", float(np.nanmax(r)) if np.all(np.isfinite(r)) else float("inf"), 1.0, key=key,
              msg="worst mode z=%s" % (z[int(np.nanargmax(r[0]))] if np.any(np.isfinite(r)) else "nan"))  # fmt: skip
    if p == 0:
        res.claim("order0_is_linear_propagation", float(np.max(np.abs(got - np.exp(lam * dt) * U) / tol)), 1.0, key=key)
    return res


# ------------------------------------------------------------------ B: stepper level

B_FAMILIES = [f for f in configs.ALL_FAMILIES if not configs.is_linear_family(f)]


def b_strata(tier):
    if tier == "quick":
        ns = {1: [9, 12], 2: [6, 7], 3: [6]}
        fams = B_FAMILIES
    else:
        ns = {1: [8, 9, 16, 21], 2: [6, 7, 9, 12], 3: [6, 7, 9]}
        fams = B_FAMILIES
    out = []
    for i, f in enumerate(fams):
        cls, dims = configs.family_info(f)
        for D in dims:
            sel = ns[D]
            if tier == "quick":
                # one N per (family, D), alternating parity over the family list
                sel = [ns[D][i % len(ns[D])]]
            for N in sel:
                out.append(dict(id="%s-D%d-N%d" % (f, D, N), fam=f, D=D, N=N))
    return out


def b_strategy(stratum, tier):
    f, D, N = stratum["fam"], stratum["D"], stratum["N"]
    return st.fixed_dictionaries(
        dict(
            spec=configs.st_spec(f, D, N, orders=(0, 1, 2, 3, 4), contour=True, frac_choice=True),
            state=gens.st_white(0.1, 1.0),
            fam=st.just(f),
        )
    )


def _b_eval(res, spec, state, key, S=None, suffix=""):
    """one stepper call against the reference model; returns the stepper object (None if construction failed)"""
    D, N = spec["D"], spec["N"]
    p = model.order_of(spec)
    C = model.num_channels(spec)
    u = orc.make_state(state, C, D, N)
    if S is None:
        ok, S = res.lib("construct" + suffix, reg.build, spec, key=key)
        if not ok:
            return None
    ok, got = res.lib("call" + suffix, S, jnp.asarray(u), key=key)
    if not ok:
        return S
    got = np.asarray(got)
    rec = []
    want, lam = model.model_step(spec, u, record=rec)
    L, dt = reg.eff_L_dt(spec)
    z = lam * dt
    with np.errstate(over="ignore"):
        E = float(np.max(np.maximum(1.0, np.exp(np.minimum(z.real, 700)))))
    Uh = np.abs(orc.rfftn(u))
    nmax = max(rec) if rec else 0.0
    S_hat = E * (float(np.max(Uh)) + abs(dt) * 4 * nmax)
    # physical-space comparison: FFT of size N^D spreads a spectral error of size s to <= s (sum / N^D)
    zmax = float(np.max(np.abs(z)))
    tol = 1e-10 * (1 + 1e-3 * zmax) * S_hat
    if res.true("shape" + suffix, got.shape == want.shape, key=key, msg=str(got.shape)):
        gh = orc.rfftn(got)
        wh = orc.rfftn(want)
        res.claim("step_equals_reference_model" + suffix, float(np.max(np.abs(gh - wh))), tol, key=key)
    res.nontrivial = bool(res.nontrivial or (p >= 1 and nmax * abs(dt) > 1e-6 * float(np.max(Uh))))
    if np.max(np.abs(lam.imag)) > 0:
        res.tag("complex_symbol")
    return S


def b_check(case):
    res = R()
    spec = case["spec"]
    D, N = spec["D"], spec["N"]
    p = model.order_of(spec)
    fam = case["fam"]
    key = "C02:stepper:%s:order%d" % (spec["cls"], p)
    res.tag("B", fam, "D%d" % D, "order%d" % p, "N%s" % ("odd" if N % 2 else "even"))
    _b_eval(res, spec, case["state"], key)
    return res


# ------------------------------------------------------------------ B'': construction / call histories ("siblings")
# Two steppers that differ in exactly ONE constructor argument are built and called in the order A, B, A (old
# object), A (fresh object): every call must still equal the reference model of its own configuration. With
# continuous draws two configurations never share (D, N, L, dt), so state that leaks between objects or calls
# (a cache keyed on too few arguments, a default evaluated once, a class attribute) would otherwise stay invisible.

VARIATIONS = ["order", "dt", "L", "coef", "coef2", "fraction", "contour", "N", "flag"]


def _vary(spec, how, factor):
    """copy of `spec` with one argument changed (None if the variation does not apply to this class)"""
    import copy

    s = copy.deepcopy(spec)
    kw = s["kw"]
    no_l_dt = spec["cls"] in reg.NO_L_DT
    if how == "order":
        kw["order"] = (model.order_of(spec) % 4) + 1
    elif how == "dt":
        if no_l_dt:
            return None
        s["dt"] = float("%.6g" % (spec["dt"] * factor))
    elif how == "L":
        if no_l_dt:
            return None
        s["L"] = float("%.6g" % (float(spec["L"]) * factor))
    elif how in ("coef", "coef2"):
        names = sorted(k for k, v in kw.items() if k not in ("order", "dealiasing_fraction", "circle_radius", "num_circle_points", "injection_mode", "maximum_absolute")
                       and not isinstance(v, bool) and (isinstance(v, (int, float)) or (isinstance(v, list) and v)))  # fmt: skip
        if not names:
            return None
        name = names[0] if how == "coef" else names[-1]
        v = kw[name]
        if isinstance(v, list):
            nz = [i for i, x in enumerate(v) if x != 0]
            i = nz[-1] if nz else len(v) - 1
            v = list(v)
            v[i] = float(v[i]) * factor if v[i] != 0 else 0.1 * factor
            kw[name] = v
        else:
            kw[name] = float(v) * factor if v != 0 else 0.1 * factor
    elif how == "fraction":
        f = kw.get("dealiasing_fraction", 2 / 3)
        if spec["cls"].endswith("PolynomialStepper") or spec["cls"] in ("AllenCahn", "CahnHilliard", "SwiftHohenberg", "GrayScott"):
            return None  # cubic terms: only 1/2 is alias-free; leave the documented default
        kw["dealiasing_fraction"] = 0.5 if f > 0.6 else 2 / 3
    elif how == "contour":
        r_ = kw.get("circle_radius", 1.0)
        kw["circle_radius"] = 2.0 if r_ != 2.0 else 1.0
        kw["num_circle_points"] = 32
    elif how == "N":
        s["N"] = spec["N"] + 1
        if "injection_mode" in kw and kw["injection_mode"] > (s["N"] - 1) // 2:
            return None
        if spec["cls"].startswith("Difficulty"):
            return None  # difficulties are defined relative to N: a different N is a different PDE, still fine, but keep one change
    elif how == "flag":
        flags = sorted(k for k, v in kw.items() if isinstance(v, bool))
        if not flags:
            return None
        k = flags[int(factor * 10) % len(flags)]
        kw[k] = not kw[k]
    else:
        return None
    if not no_l_dt and how in ("dt", "L", "coef", "coef2", "N"):
        s = configs.cap_growth(s)
    return s


def sib_strategy(stratum, tier):
    f, D, N = stratum["fam"], stratum["D"], stratum["N"]
    return st.fixed_dictionaries(
        dict(
            spec=configs.st_spec(f, D, N, orders=(1, 2, 3, 4), contour=False, frac_choice=False),
            state=gens.st_white(0.1, 1.0),
            fam=st.just(f),
            how=st.sampled_from(VARIATIONS),
            factor=st.sampled_from([2.0, 0.5, 1.25, -1.0, 3.0]),
        )
    )


def sib_check(case):
    res = R()
    A = case["spec"]
    fam = case["fam"]
    how, factor = case["how"], case["factor"]
    if factor < 0 and (how in ("dt", "L", "N") or A["cls"] in reg.NO_L_DT):
        factor = 1.5  # no sign flips where the growth cannot be capped through dt
    B = _vary(A, how, factor)
    if B is None:  # variation not applicable to this class: fall back to a coefficient change
        how = "coef"
        B = _vary(A, how, factor)
    res.tag("siblings", fam, "D%d" % A["D"], "vary:" + how)
    if B is None or B == A:
        res.tag("siblings:no_variation")
        return res
    key = "C02:siblings:%s:%s" % (A["cls"], how)
    SA = _b_eval(res, A, case["state"], key, suffix=":A_first")
    _b_eval(res, B, case["state"], key, suffix=":B_after_A")
    if SA is not None:
        _b_eval(res, A, case["state"], key, S=SA, suffix=":A_again_same_object")
    _b_eval(res, A, case["state"], key, suffix=":A_again_fresh_object")
    return res


# ------------------------------------------------------------------ B': lattice of "round" parameter values
# exact coincidences (lambda*dt = -1, -2, +-i, 0.5, ... exactly) only arise for round numbers; continuous
# draws never hit them, but users' configurations (dt = 1, nu = 1, L = 2 pi) do

LAT = [0.25, 0.5, 1.0, 2.0, 4.0]
LATTICE_FAMS = {
    "Burgers": dict(diffusivity=LAT, convection_scale=[1.0, -1.0, 2.0]),
    "FisherKPP": dict(diffusivity=LAT, reactivity=LAT),
    "AllenCahn": dict(diffusivity=LAT, first_order_coefficient=LAT, third_order_coefficient=[-1.0, -2.0]),
    "SwiftHohenberg": dict(reactivity=LAT, critical_number=[0.5, 1.0, 2.0]),
    "KuramotoSivashinsky": dict(second_order_scale=[0.5, 1.0], fourth_order_scale=[0.25, 1.0]),
    "KortewegDeVries": dict(convection_scale=[1.0, -6.0], dispersivity=[1.0, -1.0, 0.5], hyper_diffusivity=[0.0, 0.25], diffusivity=[0.0, 1.0]),
    "GeneralConvectionStepper": dict(linear_coefficients=[[0.0, -1.0], [0.0, 1.0, 1.0], [-1.0, 0.0, 1.0], [0.0, 0.0, 0.0, 1.0], [1.0, 0.0, 0.25]], convection_scale=[1.0]),
    "GeneralPolynomialStepper": dict(linear_coefficients=[[1.0, 0.0, 1.0], [0.5, 0.0, 0.25], [2.0, 0.0, 1.0], [-1.0, 0.0, 1.0]], polynomial_coefficients=[[0.0, 0.0, -1.0], [0.0, 0.0, -2.0]]),
    "NavierStokesVorticity": dict(diffusivity=LAT, drag=[0.0, -1.0, 0.5]),
}


def lat_strata(tier):
    return [dict(id="%s-D%d" % (c, D), cls=c, D=D) for c in LATTICE_FAMS for D in ((2,) if c == "NavierStokesVorticity" else (1, 2))]


def lat_strategy(stratum, tier):
    c, D = stratum["cls"], stratum["D"]
    kw = {k: st.sampled_from(v) for k, v in LATTICE_FAMS[c].items()}
    kw["order"] = st.sampled_from([2, 4, 1, 3])
    kw["_contour"] = st.sampled_from(configs.CONTOURS)
    return st.fixed_dictionaries(
        dict(
            cls=st.just(c),
            D=st.just(D),
            N=st.sampled_from([8, 9, 12, 16] if D == 1 else [6, 8, 9]),
            L=st.sampled_from([1.0, 2.0, 2 * math.pi, 4 * math.pi, math.pi]),
            dt=st.sampled_from([0.25, 0.5, 1.0, 2.0, 0.125]),
            kw=st.fixed_dictionaries(kw),
            state=gens.st_white(0.05, 0.5),
        )
    )


def lat_check(case):
    kw = dict(case["kw"])
    r_, M_ = kw.pop("_contour")
    kw["circle_radius"], kw["num_circle_points"] = r_, M_
    if case["cls"] == "GeneralPolynomialStepper" and "linear_coefficients" in kw:
        kw["linear_coefficients"] = list(kw["linear_coefficients"])
    spec = dict(cls=case["cls"], D=case["D"], N=case["N"], L=case["L"], dt=case["dt"], kw=kw)
    # keep exactness: only skip (do not rescale) configurations whose growth would overflow
    kap = 2 * math.pi / spec["L"] * orc.rfft_wavenumbers(spec["D"], spec["N"])
    lam = model.symbol(spec, kap)
    if float(np.max(lam.real)) * spec["dt"] > 20:
        res = R()
        res.tag("lattice_growth_skipped")
        return res
    res = b_check(dict(spec=spec, state=case["state"], fam="lattice:" + case["cls"]))
    z = (lam * spec["dt"]).ravel()
    special = np.isin(np.round(z, 12), np.array([-1, -0.5, -2, -1.5, 1, 0.5, 2, 1j, -1j, 0.5j, -0.5j, 2j, -2j], dtype=complex))
    res.tag("lattice", "hits_special_z" if special.any() else "no_special_z")
    res.nontrivial = bool(res.nontrivial or special.any())
    return res


# ------------------------------------------------------------------ C: measured order of convergence

C_PROBLEMS = ["KdV_scad", "Burgers_sc", "KS", "Fisher", "GenConv_sc", "KdV_mnAD", "NSVort", "AllenCahn"]


def c_strata(tier):
    out = []
    for f in C_PROBLEMS:
        cls, dims = configs.family_info(f if f in configs.ALL_FAMILIES else f)
        for D in dims:
            if D == 3 or (D == 2 and tier == "quick" and f not in ("NSVort", "KdV_mnAD")):
                continue
            out.append(dict(id="%s-D%d" % (f, D), fam=f, D=D, N=16 if D == 1 else 8))
    return out


def c_strategy(stratum, tier):
    f, D, N = stratum["fam"], stratum["D"], stratum["N"]
    C_ = st.just(0)
    return st.fixed_dictionaries(
        dict(
            spec=configs.st_spec(f, D, N, orders=(1,), dt=st.just(1.0), L=st.floats(6.0, 20.0).map(lambda x: float("%.4g" % x))),
            fam=st.just(f),
            modes_seed=gens.st_seed(),
            T=st.sampled_from([0.25, 0.5]),
            dummy=C_,
        )
    )


def smooth_state(seed, C, D, N, L):
    rng = np.random.default_rng(seed)
    X = orc.own_grid(D, N, L)
    out = []
    for _ in range(C):
        modes = []
        for _ in range(3):
            k = [int(x) for x in rng.integers(-2, 3, size=D)]
            modes.append([k, float(rng.uniform(0.2, 0.6)), float(rng.uniform(0, 2 * math.pi))])
        out.append(orc.eval_trig(modes, X, L))
    return np.stack(out)


def c_check(case):
    from scipy.integrate import solve_ivp

    res = R()
    spec0 = dict(case["spec"])
    D, N, L = spec0["D"], spec0["N"], spec0["L"]
    T = case["T"]
    fam = case["fam"]
    C = model.num_channels(spec0)
    u0 = smooth_state(case["modes_seed"], C, D, N, L)
    key = "C02:convergence:%s" % spec0["cls"]
    res.tag("C", fam, "D%d" % D)
    kap = 2 * math.pi / L * orc.rfft_wavenumbers(D, N)
    lam = model.symbol(dict(spec0, dt=1.0), kap)
    # bound stiffness/growth of the reference problem
    if float(np.max(lam.real)) * T > 3.0 or float(np.max(np.abs(lam))) * T > 400.0:
        res.tag("skipped_too_stiff_for_explicit_reference")
        return res
    nf = model.np_nonlin(model.nonlinear_fun(dict(spec0, dt=1.0)))
    shape = u0.shape

    def rhs(t, y):
        U = orc.rfftn(y.reshape(shape))
        return orc.irfftn(lam * U + nf(U), N).ravel()

    sol = solve_ivp(rhs, (0.0, T), u0.ravel(), method="DOP853", rtol=1e-13, atol=1e-13)
    if not sol.success:
        res.tag("reference_failed")
        return res
    ref = sol.y[:, -1].reshape(shape)
    unorm = float(np.max(np.abs(ref))) + 1e-300
    res.nontrivial = True
    for p in (1, 2, 3, 4):
        errs, dts = [], []
        for j in range(1, 9):
            n = 2**j
            spec = dict(spec0, dt=T / n, kw=dict(spec0["kw"], order=p))
            S = reg.build(spec)
            y = np.asarray(ex.repeat(S, n)(jnp.asarray(u0)))
            e = float(np.max(np.abs(y - ref)))
            errs.append(e)
            dts.append(T / n)
        errs = np.array(errs)
        sel = (errs > 1e-11 * unorm) & (errs < 0.1 * unorm) & np.isfinite(errs)
        if sel.sum() < 3:
            res.tag("order%d:too_few_points" % p)
            continue
        slope = float(np.polyfit(np.log(np.array(dts)[sel]), np.log(errs[sel]), 1)[0])
        res.info["slope_p%d" % p] = slope
        res.tag("order%d:slope~%.1f" % (p, round(slope * 2) / 2))
        low = slope < p - 0.5
        if low:
            # corroborate with a one-step comparison against the reference model at the coarsest dt
            spec = dict(spec0, dt=T / 4, kw=dict(spec0["kw"], order=p))
            got = np.asarray(reg.build(spec)(jnp.asarray(u0)))
            want, _ = model.model_step(spec, u0)
            mismatch = float(np.max(np.abs(got - want))) > 1e-8 * unorm
            if not mismatch:
                res.tag("order%d:low_slope_inconclusive" % p)
                low = False
        res.claim("order_of_convergence:p%d" % p, max(0.0, (p - 0.5) - slope) if low else 0.0, 0.0, key=key + ":order%d" % p,
                  msg="slope %.2f errors %s" % (slope, ["%.1e" % x for x in errs]))  # fmt: skip
    return res


SUBS = [
    Sub("integrator", a_check, strata=a_strata, strategy=a_strategy, n=(4, 40)),
    Sub("stepper", b_check, strata=b_strata, strategy=b_strategy, n=(4, 15)),
    Sub("siblings", sib_check, strata=b_strata, strategy=sib_strategy, n=(1, 6)),
    Sub("lattice", lat_check, strata=lat_strata, strategy=lat_strategy, n=(10, 60)),
    Sub("convergence", c_check, strata=c_strata, strategy=c_strategy, n=(1, 4)),
]
