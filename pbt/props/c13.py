"""C13 - specific, generic, normalized and difficulty interfaces give the same dynamics."""

from __future__ import annotations

import copy
import math

import numpy as np
from hypothesis import strategies as st

import jax.numpy as jnp

import exponax as ex
from pbt import configs, gens, model, oracles as orc, registry as reg
from pbt.core import R, Sub

G = ex.stepper.generic

RULE = (
    "Dictionary: each concrete stepper (drawn configuration, D in 1..3, odd/even N, orders 0-4, flags) is "
    "stepped on the same white-noise state as the generic stepper with the equivalent coefficient list "
    "(a_0 enters D times, so r -> r/D, drag -> drag/2). Chain: General(L, dt, a, b) vs Normalized(alpha_j = "
    "a_j dt/L^j, ...) vs Difficulty(gamma_j = alpha_j N^j 2^(j-1) D, ...) for the linear, convection, "
    "gradient-norm, polynomial and nonlinear families with a drawn maximum_absolute. Rescaling: "
    "General(sL, t dt, a_j s^j/t, ...) = General(L, dt, a, ...). Conversion functions against their "
    "documented formulas and as mutual inverses (pure floats). Non-trivial: nonlinear scale and every drawn "
    "coefficient non-zero and the step differs from the identity by > 1e-6."
)
ASSUMPTIONS = ["float64 session", "growth bounded by construction (max Re(lambda dt) <= 5)"]


# ------------------------------------------------------------------ dictionary specific -> generic


def to_generic(spec):
    """equivalent generic stepper spec, or None if the pair is not in the dictionary"""
    cls = spec["cls"]
    kw = model.full_kw(spec)
    D = spec["D"]
    common = {k: kw[k] for k in ("order", "dealiasing_fraction", "num_circle_points", "circle_radius") if k in kw}
    flags = {k: kw[k] for k in ("single_channel", "conservative") if k in kw}

    def g(gcls, **gkw):
        out = dict(spec, cls=gcls, kw={**gkw})
        return out

    if cls == "Advection" and isinstance(kw["velocity"], float):
        return g("GeneralLinearStepper", linear_coefficients=[0.0, -kw["velocity"]])
    if cls == "Diffusion" and isinstance(kw["diffusivity"], float):
        return g("GeneralLinearStepper", linear_coefficients=[0.0, 0.0, kw["diffusivity"]])
    if cls == "AdvectionDiffusion" and isinstance(kw["velocity"], float) and isinstance(kw["diffusivity"], float):
        return g("GeneralLinearStepper", linear_coefficients=[0.0, -kw["velocity"], kw["diffusivity"]])
    if cls == "Dispersion" and isinstance(kw["dispersivity"], float) and (D == 1 or not kw["advect_on_diffusion"]):
        return g("GeneralLinearStepper", linear_coefficients=[0.0, 0.0, 0.0, kw["dispersivity"]])
    if cls == "HyperDiffusion" and (D == 1 or not kw["diffuse_on_diffuse"]):
        return g("GeneralLinearStepper", linear_coefficients=[0.0, 0.0, 0.0, 0.0, -kw["hyper_diffusivity"]])
    if cls == "Burgers":
        return g("GeneralConvectionStepper", linear_coefficients=[0.0, 0.0, kw["diffusivity"]], convection_scale=kw["convection_scale"], **flags, **common)
    if cls == "KortewegDeVries" and (D == 1 or not (kw["advect_over_diffuse"] or kw["diffuse_over_diffuse"])):
        return g("GeneralConvectionStepper", linear_coefficients=[0.0, 0.0, kw["diffusivity"], -kw["dispersivity"], -kw["hyper_diffusivity"]], convection_scale=kw["convection_scale"], **flags, **common)
    if cls == "KuramotoSivashinskyConservative":
        return g("GeneralConvectionStepper", linear_coefficients=[0.0, 0.0, -kw["second_order_scale"], 0.0, -kw["fourth_order_scale"]], convection_scale=kw["convection_scale"], **flags, **common)
    if cls == "KuramotoSivashinsky":
        return g("GeneralGradientNormStepper", linear_coefficients=[0.0, 0.0, -kw["second_order_scale"], 0.0, -kw["fourth_order_scale"]], gradient_norm_scale=kw["gradient_norm_scale"], **common)
    if cls == "FisherKPP":
        return g("GeneralPolynomialStepper", linear_coefficients=[kw["reactivity"] / D, 0.0, kw["diffusivity"]], polynomial_coefficients=[0.0, 0.0, -kw["reactivity"]], **common)
    if cls == "AllenCahn":
        return g("GeneralPolynomialStepper", linear_coefficients=[kw["first_order_coefficient"] / D, 0.0, kw["diffusivity"]], polynomial_coefficients=[0.0, 0.0, 0.0, kw["third_order_coefficient"]], **common)
    if cls == "SwiftHohenberg" and D == 1:
        r, k = kw["reactivity"], kw["critical_number"]
        return g("GeneralPolynomialStepper", linear_coefficients=[r - k * k, 0.0, -2 * k, 0.0, -1.0], polynomial_coefficients=list(kw["polynomial_coefficients"]), **common)
    if cls == "NavierStokesVorticity":
        return g("GeneralVorticityConvectionStepper", linear_coefficients=[kw["drag"] / 2, 0.0, kw["diffusivity"]], vorticity_convection_scale=kw["vorticity_convection_scale"], **common)
    if cls == "KolmogorovFlowVorticity":
        return g("GeneralVorticityConvectionStepper", linear_coefficients=[kw["drag"] / 2, 0.0, kw["diffusivity"]], vorticity_convection_scale=kw["convection_scale"], injection_mode=kw["injection_mode"], injection_scale=kw["injection_scale"], **common)
    return None


def to_general_nonlinear(spec):
    """second dictionary: single-channel conservative Burgers / KS / any generic linear -> GeneralNonlinearStepper"""
    cls = spec["cls"]
    kw = model.full_kw(spec)
    common = {k: kw[k] for k in ("order", "dealiasing_fraction", "num_circle_points", "circle_radius") if k in kw}
    if cls == "Burgers" and kw["single_channel"] and kw["conservative"]:
        return dict(spec, cls="GeneralNonlinearStepper", kw=dict(linear_coefficients=[0.0, 0.0, kw["diffusivity"]], nonlinear_coefficients=[0.0, -kw["convection_scale"], 0.0], **common))
    if cls == "KuramotoSivashinsky":
        return dict(spec, cls="GeneralNonlinearStepper", kw=dict(linear_coefficients=[0.0, 0.0, -kw["second_order_scale"], 0.0, -kw["fourth_order_scale"]], nonlinear_coefficients=[0.0, 0.0, -kw["gradient_norm_scale"]], **common))
    if cls == "GeneralLinearStepper":
        return dict(spec, cls="GeneralNonlinearStepper", kw=dict(linear_coefficients=list(kw["linear_coefficients"]), nonlinear_coefficients=[0.0, 0.0, 0.0], order=1))
    if cls == "GeneralConvectionStepper" and kw["single_channel"] and kw["conservative"]:
        return dict(spec, cls="GeneralNonlinearStepper", kw=dict(linear_coefficients=list(kw["linear_coefficients"]), nonlinear_coefficients=[0.0, -kw["convection_scale"], 0.0], **common))
    if cls == "GeneralGradientNormStepper":
        return dict(spec, cls="GeneralNonlinearStepper", kw=dict(linear_coefficients=list(kw["linear_coefficients"]), nonlinear_coefficients=[0.0, 0.0, -kw["gradient_norm_scale"]], **common))
    if cls == "GeneralPolynomialStepper" and len(kw["polynomial_coefficients"]) == 3 and kw["polynomial_coefficients"][0] == 0 and kw["polynomial_coefficients"][1] == 0:
        return dict(spec, cls="GeneralNonlinearStepper", kw=dict(linear_coefficients=list(kw["linear_coefficients"]), nonlinear_coefficients=[kw["polynomial_coefficients"][2], 0.0, 0.0], **common))
    return None


DICT_FAMILIES = (
    ["Advection", "Diffusion", "AdvectionDiffusion", "Dispersion", "HyperDiffusion", "GenLin"]
    + [f for f in configs.FAMILIES if f.startswith(("Burgers_", "KdV_", "KSCons_"))]
    + ["KS", "Fisher", "AllenCahn", "SwiftHohenberg", "NSVort", "KolmVort", "GenConv_sc", "GenGradNorm", "GenPoly"]
)


def dict_strata(tier):
    ns = {1: [8, 9], 2: [6, 7], 3: [5, 6]} if tier == "quick" else {1: [7, 8, 12, 17], 2: [5, 6, 9, 10], 3: [5, 6, 7]}
    out = []
    i = 0
    for f in DICT_FAMILIES:
        cls, dims = configs.family_info(f)
        for D in dims:
            if f.startswith("KdV_") and D > 1 and (f[-2] == "A" or f[-1] == "D"):
                continue  # mixed variants have no generic counterpart in D > 1
            if f == "SwiftHohenberg" and D > 1:
                continue
            i += 1
            for N in ([ns[D][i % len(ns[D])]] if tier == "quick" else ns[D]):
                out.append(dict(id="%s-D%d-N%d" % (f, D, N), fam=f, D=D, N=N))
    return out


def dict_strategy(stratum, tier):
    f, D, N = stratum["fam"], stratum["D"], stratum["N"]
    return st.fixed_dictionaries(
        dict(
            fam=st.just(f),
            spec=configs.st_spec(f, D, N, orders=(0, 1, 2, 3, 4), contour=True, frac_choice=False),
            state=gens.st_white(0.1, 1.0),
        )
    )


def _fix_linear_scalars(spec):
    """the linear families of configs draw scalars; make the mixing flags irrelevant for the dictionary"""
    return spec


def compare(res, cid, specA, specB, u, key, tol_rel=1e-11):
    okA, SA = res.lib("construct", reg.build, specA, key=key)
    okB, SB = res.lib("construct", reg.build, specB, key=key)
    if not (okA and okB):
        return None
    ju = jnp.asarray(u)
    okA, a = res.lib("call", SA, ju, key=key)
    okB, b = res.lib("call", SB, ju, key=key)
    if not (okA and okB):
        return None
    a, b = np.asarray(a), np.asarray(b)
    if not res.true(cid + ":shape", a.shape == b.shape, key=key, msg="%s vs %s" % (a.shape, b.shape)):
        return None
    scale = max(float(np.max(np.abs(a))), float(np.max(np.abs(u))))
    res.claim(cid, float(np.max(np.abs(a - b))), tol_rel * scale * (1 + _stiff(specA)), key=key)
    return a


def _stiff(spec):
    """1e-3 * max |lambda dt|: rounding of the coefficient conversions is amplified by the stiffness"""
    D, N = spec["D"], spec["N"]
    L, dt = reg.eff_L_dt(spec)
    kap = 2 * math.pi / L * orc.rfft_wavenumbers(D, N)
    if spec["cls"] == "Wave":
        return 0.0
    return 1e-3 * float(np.max(np.abs(model.symbol(spec, kap) * dt)))


def dict_check(case):
    res = R()
    spec = case["spec"]
    D, N = spec["D"], spec["N"]
    fam = case["fam"]
    key = "C13:dictionary:%s" % spec["cls"]
    res.tag("dict", fam, "D%d" % D, "order%s" % model.order_of(spec))
    C = model.num_channels(spec)
    u = orc.make_state(case["state"], C, D, N)
    gen = to_generic(spec) if not spec["cls"].startswith("General") else None
    out = None
    if gen is not None:
        out = compare(res, "specific_equals_generic", spec, gen, u, key)
    gn = to_general_nonlinear(spec)
    if gn is not None:
        out2 = compare(res, "equals_general_nonlinear", spec, gn, u, key + ":general_nonlinear")
        out = out if out is not None else out2
    if gen is None and gn is None:
        res.tag("no_dictionary_entry")
    if out is not None:
        res.nontrivial = bool(np.max(np.abs(out - u)) > 1e-6 * np.max(np.abs(u)))
    return res


# ------------------------------------------------------------------ normalisation chain + rescaling

CHAIN = {
    "GenLin": ("NormalizedLinearStepper", "DifficultyLinearStepper"),
    "GenGradNorm": ("NormalizedGradientNormStepper", "DifficultyGradientNormStepper"),
    "GenPoly": ("NormalizedPolynomialStepper", "DifficultyPolynomialStepper"),
    "GenPoly3": ("NormalizedPolynomialStepper", "DifficultyPolynomialStepper"),
    "GenNonlin": ("NormalizedNonlinearStepper", "DifficultyNonlinearStepper"),
}
for _f in configs.FAMILIES:
    if _f.startswith("GenConv_"):
        CHAIN[_f] = ("NormalizedConvectionStepper", "DifficultyConvectionStepper")


def chain_strata(tier):
    ns = {1: [8, 9], 2: [6, 7], 3: [5, 6]} if tier == "quick" else {1: [7, 8, 12, 17], 2: [5, 6, 9, 10], 3: [5, 6, 7]}
    out = []
    i = 0
    for f in CHAIN:
        for D in (1, 2, 3):
            i += 1
            for N in ([ns[D][i % len(ns[D])]] if tier == "quick" else ns[D]):
                out.append(dict(id="%s-D%d-N%d" % (f, D, N), fam=f, D=D, N=N))
    return out


def chain_strategy(stratum, tier):
    f, D, N = stratum["fam"], stratum["D"], stratum["N"]
    return st.fixed_dictionaries(
        dict(
            fam=st.just(f),
            spec=configs.st_spec(f, D, N, orders=(0, 1, 2, 3, 4), contour=False),
            state=gens.st_white(0.1, 1.0),
            M=st.floats(0.3, 4.0).map(lambda x: float("%.4g" % x)),
            s=gens.log_floats(0.2, 5.0),
            t=gens.log_floats(0.2, 5.0),
        )
    )


def rescaled(spec, s, t):
    """General(sL, t dt, a_j s^j / t, ...)"""
    kw = copy.deepcopy(spec["kw"])
    kw["linear_coefficients"] = [a * s**j / t for j, a in enumerate(kw["linear_coefficients"])]
    if "convection_scale" in kw:
        kw["convection_scale"] = kw["convection_scale"] * s / t
    if "gradient_norm_scale" in kw:
        kw["gradient_norm_scale"] = kw["gradient_norm_scale"] * s**2 / t
    if "polynomial_coefficients" in kw:
        kw["polynomial_coefficients"] = [p / t for p in kw["polynomial_coefficients"]]
    if "nonlinear_coefficients" in kw:
        b0, b1, b2 = kw["nonlinear_coefficients"]
        kw["nonlinear_coefficients"] = [b0 / t, b1 * s / t, b2 * s**2 / t]
    return dict(spec, L=spec["L"] * s, dt=spec["dt"] * t, kw=kw)


def chain_check(case):
    res = R()
    spec = case["spec"]
    fam = case["fam"]
    D, N = spec["D"], spec["N"]
    key = "C13:chain:%s" % fam.split("_")[0]
    res.tag("chain", fam, "D%d" % D, "order%s" % model.order_of(spec))
    C = model.num_channels(spec)
    u = orc.make_state(case["state"], C, D, N)
    ncls, dcls = CHAIN[fam]
    nspec = configs.convert_generic(spec, ncls, case["M"])
    dspec = configs.convert_generic(spec, dcls, case["M"])
    out = compare(res, "general_equals_normalized", spec, nspec, u, key + ":normalized", tol_rel=1e-10)
    compare(res, "general_equals_difficulty", spec, dspec, u, key + ":difficulty", tol_rel=1e-10)
    compare(res, "rescaling_invariance", spec, rescaled(spec, case["s"], case["t"]), u, key + ":rescaling", tol_rel=1e-10)
    if out is not None:
        kw = spec["kw"]
        nz = sum(1 for x in kw.get("linear_coefficients", [1, 1]) if x != 0) >= 2
        res.nontrivial = bool(np.max(np.abs(out - u)) > 1e-6 * np.max(np.abs(u)) and nz)
    return res


# ------------------------------------------------------------------ conversion functions


def conv_strata(tier):
    return [dict(id="D%d" % D, D=D) for D in (1, 2, 3)]


def conv_strategy(stratum, tier):
    return st.fixed_dictionaries(
        dict(
            D=st.just(stratum["D"]),
            N=st.one_of(st.integers(3, 200), st.integers(3, 200), st.sampled_from([1024, 1449, 2048, 6209, 7000, 55109, 60000, 10**6])),  # the formulas are plain arithmetic: any grid size
            L=gens.log_floats(0.05, 200.0),
            dt=gens.log_floats(1e-5, 100.0),
            M=gens.log_floats(0.01, 100.0),
            coefs=st.lists(gens.coef(-5, 5), min_size=1, max_size=8),
            b=gens.coef(-5, 5),
        )
    )


def conv_check(case):
    res = R()
    D, N, L, dt, M, a, b = (case[k] for k in ("D", "N", "L", "dt", "M", "coefs", "b"))
    res.nontrivial = any(x != 0 for x in a)
    res.tag("conversion", "D%d" % D, "len%d" % len(a))
    key = "C13:conversion"

    def close(cid, got, want):
        if isinstance(want, (list, tuple)):
            # the list-valued helpers are documented to return tuples (re-usable, indexable, hashable as static
            # fields of a stepper) - a one-shot iterator would make the second evaluation of a stepper differ
            if not res.true(cid + ":returns_tuple", isinstance(got, tuple), key=key + ":" + cid, msg=type(got).__name__):
                try:
                    got = tuple(got)
                except Exception:  # noqa: BLE001
                    return
        got = np.atleast_1d(np.asarray(got, dtype=float))
        want = np.atleast_1d(np.asarray(want, dtype=float))
        if not res.true(cid + ":length", got.shape == want.shape, key=key + ":" + cid):
            return
        res.claim(cid, float(np.max(np.abs(got - want) / (np.abs(want) + 1e-300) * (want != 0) + np.abs(got) * (want == 0))), 1e-13, key=key + ":" + cid)

    alpha = [x * dt / L**j for j, x in enumerate(a)]
    close("normalize_coefficients", G.normalize_coefficients(tuple(a), domain_extent=L, dt=dt), alpha)
    # other sequence types: list and NumPy array (the caller's array must not be modified, a second call gives the same)
    a_np = np.array(a, dtype=float)
    out_np = G.normalize_coefficients(a_np, domain_extent=L, dt=dt)
    close("normalize_coefficients:ndarray_input", tuple(float(x) for x in out_np), alpha)
    res.claim("normalize_coefficients:input_array_untouched", float(np.max(np.abs(a_np - np.array(a, dtype=float)))), 0.0, key=key + ":normalize_coefficients:input_mutated")
    close("normalize_coefficients:list_input", tuple(float(x) for x in G.normalize_coefficients(list(a), domain_extent=L, dt=dt)), alpha)
    al_np = np.array(alpha, dtype=float)
    close("denormalize_coefficients:ndarray_input", tuple(float(x) for x in G.denormalize_coefficients(al_np, domain_extent=L, dt=dt)), a)
    res.claim("denormalize_coefficients:input_array_untouched", float(np.max(np.abs(al_np - np.array(alpha, dtype=float)))), 0.0, key=key + ":denormalize_coefficients:input_mutated")
    close("denormalize_coefficients", G.denormalize_coefficients(tuple(alpha), domain_extent=L, dt=dt), a)
    res.true("normalize_coefficients:returns_tuple", isinstance(G.normalize_coefficients(tuple(a), domain_extent=L, dt=dt), tuple))
    gamma = [x if j == 0 else x * N**j * 2.0 ** (j - 1) * D for j, x in enumerate(alpha)]
    close("reduce_normalized_coefficients_to_difficulty", G.reduce_normalized_coefficients_to_difficulty(tuple(alpha), num_spatial_dims=D, num_points=N), gamma)
    close("extract_normalized_coefficients_from_difficulty", G.extract_normalized_coefficients_from_difficulty(tuple(gamma), num_spatial_dims=D, num_points=N), alpha)
    close("normalize_convection_scale", G.normalize_convection_scale(b, domain_extent=L, dt=dt), b * dt / L)
    close("denormalize_convection_scale", G.denormalize_convection_scale(b * dt / L, domain_extent=L, dt=dt), b)
    close("normalize_gradient_norm_scale", G.normalize_gradient_norm_scale(b, domain_extent=L, dt=dt), b * dt / L**2)
    close("denormalize_gradient_norm_scale", G.denormalize_gradient_norm_scale(b * dt / L**2, domain_extent=L, dt=dt), b)
    close("normalize_polynomial_scales", G.normalize_polynomial_scales(tuple(a), domain_extent=L, dt=dt), [x * dt for x in a])
    close("denormalize_polynomial_scales", G.denormalize_polynomial_scales(tuple(x * dt for x in a), domain_extent=L, dt=dt), a)
    beta = b * dt / L
    close("reduce_normalized_convection_scale_to_difficulty", G.reduce_normalized_convection_scale_to_difficulty(beta, num_spatial_dims=D, num_points=N, maximum_absolute=M), beta * M * N * D)
    close("extract_normalized_convection_scale_from_difficulty", G.extract_normalized_convection_scale_from_difficulty(beta * M * N * D, num_spatial_dims=D, num_points=N, maximum_absolute=M), beta)
    beta2 = b * dt / L**2
    close("reduce_normalized_gradient_norm_scale_to_difficulty", G.reduce_normalized_gradient_norm_scale_to_difficulty(beta2, num_spatial_dims=D, num_points=N, maximum_absolute=M), beta2 * M * N**2 * D)
    close("extract_normalized_gradient_norm_scale_from_difficulty", G.extract_normalized_gradient_norm_scale_from_difficulty(beta2 * M * N**2 * D, num_spatial_dims=D, num_points=N, maximum_absolute=M), beta2)
    return res


SUBS = [
    Sub("dictionary", dict_check, strata=dict_strata, strategy=dict_strategy, n=(4, 15)),
    Sub("chain", chain_check, strata=chain_strata, strategy=chain_strategy, n=(4, 15)),
    Sub("conversion_functions", conv_check, strata=conv_strata, strategy=conv_strategy, n=(60, 600)),
]
