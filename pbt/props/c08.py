"""C08 - steppers commute with the symmetries of the periodic box."""

from __future__ import annotations

import itertools
import math

import numpy as np
from hypothesis import strategies as st

import jax.numpy as jnp

from pbt import configs, gens, model, oracles as orc, registry as reg
from pbt.core import R, Sub

RULE = (
    "Strata: every stepper family (all exported classes incl. normalized/difficulty) x D x odd/even N, "
    "orders 0-4 drawn. Translation: white-noise state, drawn shift vector (forced Kolmogorov steppers: no "
    "shift along the forcing's varying axis). Axis permutation (D >= 2, isotropic configurations): every "
    "non-identity permutation; scalar channels are transposed, vector fields transposed with their "
    "channels permuted, the 2D vorticity (pseudo-scalar) additionally multiplied by sign(pi); Nyquist-free "
    "state if the linear symbol has odd-order terms and N is even, white noise otherwise. Embedding "
    "(D >= 2): a 1D white-noise state broadcast along all but one axis (multi-channel convection: in the "
    "matching channel) must reproduce the corresponding 1D stepper (generic: a_0*D). Non-trivial: shift "
    "!= 0 mod N, state not invariant under the transformation, step differs from identity."
)
ASSUMPTIONS = [
    "float64 session",
    "3D velocity steppers have no 1D counterpart (embedding not asserted); forced Kolmogorov steppers are not isotropic (permutation/embedding not asserted)",
]

VECTOR_CLASSES = ("Burgers", "KortewegDeVries", "KuramotoSivashinskyConservative", "GeneralConvectionStepper", "NormalizedConvectionStepper", "DifficultyConvectionStepper")
FORCED = ("KolmogorovFlowVorticity", "KolmogorovFlowVelocity")


def is_forced(spec):
    if spec["cls"] in FORCED:
        return True
    return spec["cls"] == "GeneralVorticityConvectionStepper" and model.full_kw(spec).get("injection_scale", 0.0) != 0.0


def channel_kind(spec):
    cls = spec["cls"]
    if cls in VECTOR_CLASSES and not model.full_kw(spec).get("single_channel", False):
        return "vector"
    if cls in ("NavierStokesVelocity", "KolmogorovFlowVelocity"):
        return "vector"
    if cls in ("NavierStokesVorticity", "KolmogorovFlowVorticity", "GeneralVorticityConvectionStepper"):
        return "pseudoscalar"
    return "scalar"


def strata(tier):
    ns = {1: [8, 9, 16], 2: [6, 7, 12], 3: [5, 6, 8]} if tier == "quick" else {1: [7, 8, 12, 17, 24], 2: [5, 6, 9, 10, 12, 16], 3: [5, 6, 7, 8, 12]}
    out = []
    i = 0
    for f in configs.ALL_FAMILIES:
        cls, dims = configs.family_info(f)
        for D in dims:
            i += 1
            for N in ([ns[D][i % len(ns[D])]] if tier == "quick" else ns[D]):
                out.append(dict(id="%s-D%d-N%d" % (f, D, N), fam=f, D=D, N=N))
    return out


def strategy(stratum, tier):
    f, D, N = stratum["fam"], stratum["D"], stratum["N"]
    return st.fixed_dictionaries(
        dict(
            fam=st.just(f),
            # the symmetries hold for any dealiasing fraction (aliasing itself commutes with them): also 1.0 (nothing
            # but the Nyquist plane removed) and an uncommon value
            spec=configs.st_spec(f, D, N, orders=(0, 1, 2, 3, 4), frac_choice=[2 / 3, 1.0, 2 / 3, 0.5, 0.8]),
            seed=gens.st_seed(),
            amp=st.floats(0.1, 1.0).map(lambda x: float("%.4g" % x)),
            shift=st.lists(st.one_of(st.integers(1, N - 1), st.integers(1, N - 1), st.integers(-N, 2 * N)), min_size=D, max_size=D),
            axis=st.integers(0, D - 1),
        )
    )


def permute_state(u, perm, kind):
    """T u for the axis permutation perm (new spatial axis a = old axis perm[a])"""
    D = u.ndim - 1
    axes = (0,) + tuple(1 + p for p in perm)
    v = np.transpose(u, axes)
    if kind == "vector":
        v = v[list(perm)]
    if kind == "pseudoscalar":
        # sign of the permutation
        inv = sum(1 for i in range(D) for j in range(i + 1, D) if perm[i] > perm[j])
        v = v * (-1.0) ** inv
    return v


def partner_1d(spec):
    """spec of the 1D stepper that a state varying along a single axis must reproduce, or None"""
    cls = spec["cls"]
    kw = dict(spec["kw"])
    D, N = spec["D"], spec["N"]
    if cls in ("NavierStokesVelocity", "KolmogorovFlowVelocity") or is_forced(spec):
        return None
    full = model.full_kw(spec)
    if cls in ("NavierStokesVorticity", "GeneralVorticityConvectionStepper"):
        # convection of a shear flow vanishes: purely linear dynamics
        if cls == "NavierStokesVorticity":
            coefs = [full["drag"], 0.0, full["diffusivity"]]
        else:
            a = list(full["linear_coefficients"])
            coefs = [a[0] * D] + a[1:]
        return dict(cls="GeneralLinearStepper", D=1, N=N, L=spec["L"], dt=spec["dt"], kw=dict(linear_coefficients=coefs))
    # generic coefficient lists: a_0 enters D times
    for name in ("linear_coefficients", "normalized_linear_coefficients"):
        if name in kw:
            a = list(kw[name])
            kw[name] = [a[0] * D] + a[1:]
    if cls.startswith("Difficulty"):
        # go through the documented normalized form (the difficulty reduction depends on D)
        M = full.get("maximum_absolute", 1.0)
        if cls == "DifficultyLinearStepperSimple":
            gam = [0.0] * full["order"] + [full["difficulty"]]
            ncls = "NormalizedLinearStepper"
            kw = {}
        else:
            gam = list(full["linear_difficulties"])
            ncls = cls.replace("Difficulty", "Normalized")
        alpha = reg.difficulty_to_normalized(gam, D, N)
        alpha = [alpha[0] * D] + alpha[1:]
        out = {k: v for k, v in kw.items() if k not in ("linear_difficulties", "convection_difficulty", "gradient_norm_difficulty", "polynomial_difficulties", "nonlinear_difficulties", "maximum_absolute", "difficulty")}
        if cls == "DifficultyLinearStepperSimple":
            out = {}
        out["normalized_linear_coefficients"] = alpha
        if "convection_difficulty" in full and cls == "DifficultyConvectionStepper":
            out["normalized_convection_scale"] = full["convection_difficulty"] / (M * N * D)
        if cls == "DifficultyGradientNormStepper":
            out["normalized_gradient_norm_scale"] = full["gradient_norm_difficulty"] / (M * N**2 * D)
        if cls == "DifficultyPolynomialStepper":
            out["normalized_polynomial_coefficients"] = list(full["polynomial_difficulties"])
        if cls == "DifficultyNonlinearStepper":
            d0, d1, d2 = full["nonlinear_difficulties"]
            out["normalized_nonlinear_coefficients"] = [d0, d1 / (M * N * D), d2 / (M * N**2 * D)]
        return dict(cls=ncls, D=1, N=N, L=1.0, dt=1.0, kw=out)
    return dict(spec, D=1, kw=kw)


def check(case):
    res = R()
    spec = case["spec"]
    D, N = spec["D"], spec["N"]
    fam = case["fam"]
    key = "C08:%s" % spec["cls"]
    C = model.num_channels(spec)
    kind = channel_kind(spec)
    p = model.order_of(spec)
    res.tag(fam, "D%d" % D, "order%d" % p, kind, "N%s" % ("odd" if N % 2 else "even"))
    if D >= 2 and case["seed"] % 2 == 0:
        # call history: a public utility used with the other meshgrid convention on the same (D, N) right before
        # the stepper is built must not influence it (state leaking through memoised wavenumbers)
        import exponax as ex

        ex.spectral.build_wavenumbers(D, N, indexing="xy")
        res.tag("xy_call_before_construction")
    ok, S = res.lib("construct", reg.build, spec, key=key)
    if not ok:
        return res
    L, dt = reg.eff_L_dt(spec)
    kap = 2 * math.pi / L * orc.rfft_wavenumbers(D, N)
    if spec["cls"] == "Wave":
        lam = np.zeros((1,) + kap.shape[1:], dtype=complex)
        zmax = abs(model.full_kw(spec)["speed_of_sound"]) * float(np.max(np.sqrt((kap**2).sum(0)))) * abs(dt)
    else:
        lam = model.symbol(spec, kap)
        zmax = float(np.max(np.abs(lam * dt)))
    odd_linear = bool(np.max(np.abs(lam.imag)) > 0)
    u = orc.white(case["seed"], (C,) + (N,) * D, case["amp"])
    ju = jnp.asarray(u)
    ok, Su = res.lib("call", S, ju, key=key)
    if not ok:
        return res
    Su = np.asarray(Su)
    scale = max(float(np.max(np.abs(u))), float(np.max(np.abs(Su))))
    tol = 1e-11 * scale * (1 + 1e-3 * zmax)
    moved = bool(np.max(np.abs(Su - u)) > 1e-9 * scale)

    # ---------------- translations
    shift = list(case["shift"])
    if is_forced(spec):
        shift[1] = 0  # forcing varies along axis 1
    ax = tuple(range(1, D + 1))
    us = np.roll(u, shift, axis=ax)
    ok, Sus = res.lib("call", S, jnp.asarray(us), key=key)
    if ok:
        res.claim("translation", float(np.max(np.abs(np.asarray(Sus) - np.roll(Su, shift, axis=ax)))), tol, key=key + ":translation")
    if is_forced(spec):
        # every invariant direction of the forcing on its own (shift by one and by a drawn amount)
        for axis_ in range(D):
            if axis_ == 1:
                continue
            for sh_ in (1, (case["shift"][axis_] % N) or 2):
                us1 = np.roll(u, sh_, axis=axis_ + 1)
                ok, Sus1 = res.lib("call", S, jnp.asarray(us1), key=key)
                if ok:
                    res.claim("translation_along_invariant_axis", float(np.max(np.abs(np.asarray(Sus1) - np.roll(Su, sh_, axis=axis_ + 1)))), tol, key=key + ":translation:axis%d" % axis_)
    nt_shift = any(s % N for s in shift)
    res.nontrivial = bool(nt_shift and moved)

    # ---------------- axis permutations (isotropic, unforced)
    if D >= 2 and not is_forced(spec):
        w = u
        if odd_linear and N % 2 == 0:
            w = orc.remove_nyquist(u)
            Sw = np.asarray(S(jnp.asarray(w)))
        else:
            Sw = Su
        for perm in itertools.permutations(range(D)):
            if perm == tuple(range(D)):
                continue
            Tw = permute_state(w, perm, kind)
            ok, STw = res.lib("call", S, jnp.asarray(Tw), key=key)
            if ok:
                res.claim(
                    "axis_permutation",
                    float(np.max(np.abs(np.asarray(STw) - permute_state(Sw, perm, kind)))),
                    tol,
                    key=key + ":permutation:" + kind,
                    msg="perm %s" % (perm,),
                )
        res.tag("permutation")

    # ---------------- embedding of a 1D state
    if D >= 2:
        p1 = partner_1d(spec)
        if p1 is None:
            res.tag("no_1d_counterpart")
        else:
            a = case["axis"]
            C1 = model.num_channels(p1)
            g = orc.white(case["seed"] + 1, (C1, N), case["amp"])
            ok1, S1 = res.lib("construct_1d", reg.build, p1, key=key)
            if ok1:
                S1g = np.asarray(S1(jnp.asarray(g)))
                shape = [1] * D
                shape[a] = N
                emb = np.zeros((C,) + (N,) * D)
                if kind == "vector":
                    emb[a] = np.broadcast_to(g[0].reshape(shape), (N,) * D)
                else:
                    for c in range(C):
                        emb[c] = np.broadcast_to(g[c].reshape(shape), (N,) * D)
                ok, Semb = res.lib("call", S, jnp.asarray(emb), key=key)
                if ok:
                    Semb = np.asarray(Semb)
                    want = np.zeros_like(emb)
                    if kind == "vector":
                        want[a] = np.broadcast_to(S1g[0].reshape(shape), (N,) * D)
                    else:
                        for c in range(C):
                            want[c] = np.broadcast_to(S1g[c].reshape(shape), (N,) * D)
                    sc = max(float(np.max(np.abs(g))), float(np.max(np.abs(S1g))))
                    res.claim("embedding_1d", float(np.max(np.abs(Semb - want))), 1e-11 * sc * (1 + 1e-3 * zmax), key=key + ":embedding", msg="axis %d" % a)
                    res.tag("embedding")
    return res


SUBS = [Sub("symmetries", check, strata=strata, strategy=strategy, n=(2, 10))]
