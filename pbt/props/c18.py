"""C18 - initial-condition generators honour their documented contract."""

from __future__ import annotations

import math

import numpy as np
from hypothesis import strategies as st

import jax
import jax.numpy as jnp
import jax.random as jr

import exponax as ex
from pbt import gens, oracles as orc
from pbt.core import R, Sub

I = ex.ic
from exponax.ic._discontinuities import Discontinuity  # noqa: E402
from exponax.ic._gaussian_blob import GaussianBlob  # noqa: E402

RULE = (
    "Strata: every public generator (truncated Fourier series, sine waves 1d, Gaussian random field, "
    "diffused noise, white noise, discontinuities, Gaussian blobs) and wrapper (clamping, scaled, "
    "multi-channel, nested Clamp(Scaled(...)) / Multi(...)) x D x odd/even N. Hypothesis draws the key, "
    "all documented options (normalisation flags incl. invalid combinations, offset ranges, cut-offs, "
    "power-law exponents, intensities, limits, scales incl. tiny ones, ranges). Claims: finite, shape, "
    "determinism in the key / different keys differ, zero mean / unit std / unit max of the SAMPLED array, "
    "requested offset, clamping limits reached at both ends and nowhere exceeded, scale factors, Fourier "
    "content confined to the cut-off (NumPy FFT), spectrum = |kappa|^(-p/2) resp. exp(-nu|kappa|^2) times "
    "the white-noise spectrum of the same key, explicit NumPy re-evaluation of discontinuities / blobs / "
    "sine waves from the generated parameters, function form = sampled form, invalid combinations raise "
    "ValueError. Non-trivial: at least one normalisation/option active or N >= 6."
)
ASSUMPTIONS = [
    "float64 session",
    "jax.random as the source of the draws (same key -> same numbers)",
    "draws that are spatially constant before normalisation (cutoff 0, boxes containing no grid point) cannot be given unit std / unit max / clamping limits; such cases are tagged and skipped",
]

GENS = ["tfs", "sine1d", "grf", "diffused", "white", "discont", "blobs", "clamp", "scaled", "multi", "nested"]


def strata(tier):
    ns = {1: [7, 12, 16], 2: [6, 9], 3: [5, 6]} if tier == "quick" else {1: [3, 4, 7, 10, 15, 16, 33], 2: [3, 4, 7, 10, 13], 3: [3, 4, 5, 8]}
    return [dict(id="%s-D%d-N%d" % (g, D, N), g=g, D=D, N=N) for g in GENS for D in (1, 2, 3) if not (g == "sine1d" and D > 1) for N in ns[D]]


def norm_flags():
    """(zero_mean, std_one, max_one) including invalid combinations"""
    return st.tuples(st.booleans(), st.booleans(), st.booleans())


def strategy(stratum, tier):
    g, D, N = stratum["g"], stratum["D"], stratum["N"]
    f = lambda lo, hi: st.floats(lo, hi).map(lambda x: float("%.4g" % x))  # noqa: E731
    opts = dict(
        flags=norm_flags(),
        L=gens.st_L(0.3, 30.0),
        cutoff=st.integers(0, 8),
        offset=st.one_of(
            st.just([0.0, 0.0]),
            st.tuples(gens.coef(-2, 2), f(0.0, 1.0)).map(lambda t: [t[0], t[0] + (t[1] if t[1] > 0.3 else 0.0)]),
            st.sampled_from([[-1.0, 1.0], [-0.5, 0.5], [0.0, 1.0], [-2.0, 0.0]]),
        ),
        p=st.one_of(f(0.5, 5.0), f(0.5, 5.0), f(0.5, 5.0), st.sampled_from([0.0, 0, 1, 2, 3.0])),  # incl. the flat spectrum p = 0 and ints
        intensity=gens.log_floats(1e-5, 0.1),
        std=f(0.1, 3.0),
        ndisc=st.integers(1, 4),
        vrange=st.tuples(gens.coef(-2, 2), f(0.1, 2.0)).map(lambda t: [t[0], t[0] + t[1]]),
        nblobs=st.integers(1, 3),
        one_complement=st.booleans(),
        limits=st.tuples(gens.coef(-2, 2), f(0.1, 3.0)).map(lambda t: [t[0], t[0] + t[1]]),
        scale=st.one_of(gens.nonzero_coef(0.1, 5.0), gens.log_floats(1e-7, 1e-3)),
        amp=st.tuples(gens.coef(-2, 0), f(0.1, 2.0)).map(lambda t: [t[0], t[0] + t[1]]),
        inner=st.sampled_from(["tfs", "grf", "white", "blobs", "discont", "diffused"]),
    )
    return st.fixed_dictionaries(dict(g=st.just(g), D=st.just(D), N=st.just(N), key=st.integers(0, 2**31 - 1), key2=st.integers(0, 2**31 - 1), **opts))


def valid_flags(zero_mean, std_one, max_one):
    return not ((not zero_mean and std_one) or (std_one and max_one))


def build_inner(name, D, L, c):
    if name == "tfs":
        return I.RandomTruncatedFourierSeries(D, cutoff=max(1, c["cutoff"]))
    if name == "grf":
        return I.GaussianRandomField(D, domain_extent=L, powerlaw_exponent=c["p"])
    if name == "white":
        return I.WhiteNoise(D, std=c["std"])
    if name == "blobs":
        return I.RandomGaussianBlobs(D, domain_extent=L, num_blobs=c["nblobs"])
    if name == "discont":
        return I.RandomDiscontinuities(D, domain_extent=L, num_discontinuities=c["ndisc"], value_range=tuple(c["vrange"]))
    return I.DiffusedNoise(D, domain_extent=L, intensity=c["intensity"])


def expect_value_error(res, cid, fn, key):
    try:
        fn()
        res.true(cid, False, key=key, msg="no exception")
    except ValueError:
        res.true(cid, True, key=key)
    except Exception as e:  # noqa: BLE001
        res.true(cid, False, key=key, msg="%s instead of ValueError" % type(e).__name__)


def stats_claims(res, u, zero_mean, std_one, max_one, key, prefix="", ref_amp=None):
    # ref_amp: size of the field before the mean was removed (the rounding error of the subtraction scales with it)
    amp = max(float(np.max(np.abs(u))), ref_amp or 0.0) + 1e-300
    if zero_mean:
        res.claim(prefix + "zero_mean", abs(float(np.mean(u))), 1e-10 * amp, key=key + ":zero_mean")
    if std_one:
        res.claim(prefix + "unit_std", abs(float(np.std(u)) - 1.0), 1e-10, key=key + ":std_one")
    if max_one:
        res.claim(prefix + "unit_max", abs(float(np.max(np.abs(u))) - 1.0), 1e-12, key=key + ":max_one")


def check(case):
    res = R()
    g, D, N, L = case["g"], case["D"], case["N"], case["L"]
    zm, so, mo = case["flags"]
    key = "C18:%s" % g
    res.tag(g, "D%d" % D, "N%s" % ("odd" if N % 2 else "even"))
    k1, k2 = jr.PRNGKey(case["key"]), jr.PRNGKey(case["key2"])
    shape1 = (1,) + (N,) * D
    res.nontrivial = N >= 6

    def basic(gen, nchan=1, k=key):
        ok, u = res.lib("call", lambda: np.asarray(gen(N, key=k1)), key=k)
        if not ok:
            return None
        if not res.true("shape", u.shape == (nchan,) + (N,) * D, key=k + ":shape", msg="%s" % (u.shape,)):
            return None
        res.true("finite", bool(np.all(np.isfinite(u))), key=k + ":finite")
        u_again = np.asarray(gen(N, key=k1))
        res.claim("deterministic_in_key", float(np.max(np.abs(u_again - u))), 0.0, key=k + ":determinism")
        if case["key"] != case["key2"]:
            u_other = np.asarray(gen(N, key=k2))
            # not promised by the property, but a generator that ignores its key would be useless: asserted only where a
            # coincidence cannot happen by accident (outputs with at least three distinct values - a coarse grid with one
            # normalised discontinuity has few possible outputs)
            if len(np.unique(np.round(u, 12))) >= 3 and len(np.unique(np.round(u_other, 12))) >= 3:
                res.true("different_keys_differ", bool(np.max(np.abs(u_other - u)) > 0), key=k + ":determinism")
            else:
                res.tag("degenerate_few_valued_output")
        return u

    def function_form(gen, u, k=key):
        ok, fn = res.lib("gen_ic_fun", lambda: gen.gen_ic_fun(key=k1), key=k + ":function_form")
        if not ok:
            return None
        grid = ex.make_grid(D, L, N)
        ok, v = res.lib("ic_fun_call", lambda: np.asarray(fn(grid)), key=k + ":function_form")
        if ok and res.true("function_form:shape", v.shape == u.shape, key=k + ":function_form", msg=str(v.shape)):
            res.claim("function_form_equals_sampled_form", float(np.max(np.abs(v - u))), 1e-12 * (float(np.max(np.abs(u))) + 1e-300), key=k + ":function_form")
        return fn

    # ------------------------------------------------------------------ truncated Fourier series
    if g == "tfs":
        off = case["offset"]
        zero_off = off == [0.0, 0.0]
        mk = lambda std_one, max_one: I.RandomTruncatedFourierSeries(D, cutoff=case["cutoff"], offset_range=tuple(off), std_one=std_one, max_one=max_one)  # noqa: E731
        if not valid_flags(zero_off, so, mo):
            expect_value_error(res, "invalid_options_raise", lambda: mk(so, mo), key + ":validation")
            return res
        res.tag("offset" if not zero_off else "no_offset", "std_one" if so else "", "max_one" if mo else "")
        gen = mk(so, mo)
        raw0 = np.asarray(mk(False, False)(N, key=k1))
        if (so or mo) and np.ptp(raw0) == 0:
            res.tag("degenerate_constant_draw_cannot_be_normalised")
            return res
        u = basic(gen)
        if u is None:
            return res
        U = np.abs(orc.rfftn(u))
        kh = orc.rfft_wavenumbers(D, N)
        outside = ~np.all(np.abs(kh) <= case["cutoff"], axis=0)
        if outside.any():
            res.claim("band_limited_to_cutoff", float(np.max(U[:, outside])), 1e-10 * (float(np.max(U)) + 1e-300), key=key + ":band")
        raw = np.asarray(mk(False, False)(N, key=k1))
        m = float(np.mean(raw))
        res.true("offset_in_range", off[0] - 1e-9 <= m <= off[1] + 1e-9, key=key + ":offset", msg="mean %.6g not in %s" % (m, off))
        if off[1] - off[0] > 1e-6:
            # a non-degenerate range (also one that is symmetric about 0) yields a uniformly drawn offset: the mean is not
            # (numerically) zero - a coincidence has probability ~1e-9
            res.true("offset_drawn_from_non_degenerate_range", abs(m) > 1e-9 * (off[1] - off[0]), key=key + ":offset", msg="mean %.3g for offset_range %s" % (m, off))
        if off[0] == off[1]:
            res.claim("offset_realised", abs(m - off[0]), 1e-10 * (abs(off[0]) + float(np.max(np.abs(raw))) + 1e-300), key=key + ":offset")
        if mo:
            res.claim("max_one_is_raw_over_max", float(np.max(np.abs(u - raw / np.max(np.abs(raw))))), 1e-12, key=key + ":max_one")
        stats_claims(res, u, zero_off, so, mo, key)
        return res
    # ------------------------------------------------------------------ sine waves 1d
    if g == "sine1d":
        off = case["offset"]
        zero_off = off == [0.0, 0.0]
        cutoff = max(1, case["cutoff"])
        mk = lambda std_one, max_one: I.RandomSineWaves1d(1, domain_extent=L, cutoff=cutoff, amplitude_range=tuple(case["amp"]), offset_range=tuple(off), std_one=std_one, max_one=max_one)  # noqa: E731
        if (not zero_off and so) or (so and mo):
            expect_value_error(res, "invalid_options_raise", lambda: mk(so, mo), key + ":validation")
            return res
        expect_value_error(res, "sine1d_only_1d", lambda: I.RandomSineWaves1d(2), key + ":validation")
        gen = mk(so, mo)
        u = basic(gen)
        if u is None:
            return res
        fn = function_form(gen, u)
        if fn is not None:
            # re-evaluate from the generated parameters
            x = orc.own_grid(1, N, L)
            a, kk, ph = np.asarray(fn.amplitudes), np.asarray(fn.wavenumbers), np.asarray(fn.phases)
            raw = sum(a[i] * np.sin(kk[i] * 2 * math.pi / L * x + ph[i]) for i in range(len(a))) + float(fn.offset)
            want = raw
            if so:
                want = raw / np.std(raw)
            if mo:
                want = raw / np.max(np.abs(raw))
            res.claim("sine_waves_formula", float(np.max(np.abs(u - want))), 1e-10 * (float(np.max(np.abs(want))) + 1e-300), key=key + ":formula")
            res.true("amplitudes_in_range", bool(np.all((a >= case["amp"][0] - 1e-12) & (a <= case["amp"][1] + 1e-12))), key=key + ":ranges")
            res.true("wavenumbers_1_to_cutoff", list(kk.astype(int)) == list(range(1, cutoff + 1)), key=key + ":ranges")
            res.true("offset_in_range", off[0] - 1e-12 <= float(fn.offset) <= off[1] + 1e-12, key=key + ":offset")
        if N > 2 * cutoff:
            U = np.abs(orc.rfftn(u - np.mean(u)))
            if U.shape[-1] > cutoff + 1:
                res.claim("band_limited_to_cutoff", float(np.max(U[:, cutoff + 1 :])), 1e-10 * (float(np.max(U)) + 1e-300), key=key + ":band")
        stats_claims(res, u, False, so, mo, key)
        return res
    # ------------------------------------------------------------------ GRF / diffused noise
    if g in ("grf", "diffused"):
        if g == "grf":
            mk = lambda z, s_, m_: I.GaussianRandomField(D, domain_extent=L, powerlaw_exponent=case["p"], zero_mean=z, std_one=s_, max_one=m_)  # noqa: E731
        else:
            mk = lambda z, s_, m_: I.DiffusedNoise(D, domain_extent=L, intensity=case["intensity"], zero_mean=z, std_one=s_, max_one=m_)  # noqa: E731
        if not valid_flags(zm, so, mo):
            expect_value_error(res, "invalid_options_raise", lambda: mk(zm, so, mo), key + ":validation")
            return res
        gen = mk(zm, so, mo)
        u = basic(gen)
        if u is None:
            return res
        raw = np.asarray(mk(False, False, False)(N, key=k1))
        noise = np.asarray(I.WhiteNoise(D)(N, key=k1))
        kap = 2 * math.pi / L * orc.rfft_wavenumbers(D, N)
        kn = np.sqrt((kap**2).sum(0))
        Wn = orc.rfftn(noise)
        Ur = orc.rfftn(raw)
        if g == "grf":
            with np.errstate(divide="ignore"):
                filt = np.where(kn == 0, 1.0, np.power(np.where(kn == 0, 1.0, kn), -case["p"] / 2.0))
        else:
            filt = np.exp(-case["intensity"] * kn**2)
        scale = float(np.max(np.abs(Wn) * filt)) + 1e-300
        res.claim("spectrum_is_filtered_white_noise_of_same_key", float(np.max(np.abs(Ur - Wn * filt))), 1e-10 * scale, key=key + ":spectrum")
        want = raw
        if zm:
            want = want - np.mean(want)
        if so:
            want = want / np.std(want)
        if mo:
            want = want / np.max(np.abs(want))
        raw_amp = float(np.max(np.abs(raw)))
        if (zm or so or mo) and float(np.ptp(raw)) < 1e-9 * raw_amp:
            # the filter left a spatially constant draw (all non-mean modes damped below rounding): removing the mean
            # leaves rounding noise, whose normalisation says nothing
            res.tag("degenerate_constant_draw")
            return res
        res.claim("normalised_variant_is_affine_image", float(np.max(np.abs(u - want))), 1e-10 * (float(np.max(np.abs(want))) + 1e-300) + (1e-14 * raw_amp if zm and not (so or mo) else 0.0), key=key + ":normalisation")
        stats_claims(res, u, zm, so, mo, key, ref_amp=raw_amp if not (so or mo) else None)
        return res
    if g == "white":
        gen = I.WhiteNoise(D, std=case["std"])
        u = basic(gen)
        if u is None:
            return res
        base = np.asarray(I.WhiteNoise(D)(N, key=k1))
        res.claim("std_parameter_scales_the_draw", float(np.max(np.abs(u - case["std"] * base))), 1e-12 * case["std"] * (float(np.max(np.abs(base))) + 1e-300), key=key + ":scale")
        return res
    # ------------------------------------------------------------------ discontinuities
    if g == "discont":
        mk = lambda z, s_, m_: I.RandomDiscontinuities(D, domain_extent=L, num_discontinuities=case["ndisc"], value_range=tuple(case["vrange"]), zero_mean=z, std_one=s_, max_one=m_)  # noqa: E731
        if not valid_flags(zm, so, mo):
            expect_value_error(res, "invalid_options_raise", lambda: mk(zm, so, mo), key + ":validation")
            return res
        gen = mk(zm, so, mo)
        raw0 = np.asarray(mk(False, False, False)(N, key=k1))
        if (so or mo) and np.ptp(raw0) == 0:
            res.tag("degenerate_constant_draw_cannot_be_normalised")
            return res
        u = basic(gen)
        if u is None:
            return res
        fn = function_form(gen, u)
        if fn is not None:
            X = orc.own_grid(D, N, L)
            raw = np.zeros((N,) * D)
            ok_ranges = True
            for d_ in fn.discontinuity_list:
                lb = [float(x) for x in d_.lower_limits]
                ub = [float(x) for x in d_.upper_limits]
                v = float(d_.value)
                ok_ranges &= case["vrange"][0] - 1e-12 <= v <= case["vrange"][1] + 1e-12
                ok_ranges &= all(0 <= a <= b <= L + 1e-12 for a, b in zip(lb, ub)) and len(lb) == D
                m = np.ones((N,) * D, dtype=bool)
                for i in range(D):
                    m &= (X[i] > lb[i]) & (X[i] < ub[i])
                raw = raw + np.where(m, v, 0.0)
            res.true("values_and_boxes_in_documented_ranges", bool(ok_ranges), key=key + ":ranges")
            res.true("number_of_discontinuities", len(fn.discontinuity_list) == case["ndisc"], key=key + ":ranges")
            want = raw
            degenerate = np.ptp(raw) == 0
            if zm:
                want = want - np.mean(want)
            if not degenerate:
                if so:
                    want = want / np.std(want)
                if mo:
                    want = want / np.max(np.abs(want))
                res.claim("piecewise_constant_on_boxes", float(np.max(np.abs(u[0] - want))), 1e-10 * (float(np.max(np.abs(want))) + 1e-300), key=key + ":formula")
                stats_claims(res, u, zm, so, mo, key)
            else:
                res.tag("degenerate_empty_boxes")
        return res
    # ------------------------------------------------------------------ blobs
    if g == "blobs":
        gen = I.RandomGaussianBlobs(D, domain_extent=L, num_blobs=case["nblobs"], one_complement=case["one_complement"])
        u = basic(gen)
        if u is None:
            return res
        fn = function_form(gen, u)
        if case["one_complement"]:
            res.true("values_in_[0,1)", bool(np.all((u >= 0) & (u < 1 + 1e-15))), key=key + ":range")
        else:
            res.true("values_in_(0,1]", bool(np.all((u >= 0) & (u <= 1 + 1e-15))), key=key + ":range")
        if fn is not None:
            X = orc.own_grid(D, N, L)
            tot = np.zeros((N,) * D)
            okr = True
            for b in fn.blob_list:
                pos = np.asarray(b.position)
                cov = np.asarray(b.covariance)
                okr &= bool(np.all((pos >= 0.4 * L - 1e-12) & (pos <= 0.6 * L + 1e-12)))
                var = np.diag(cov)
                okr &= bool(np.all((var >= 0.005 * L - 1e-15) & (var <= 0.01 * L + 1e-15)))
                d_ = X - pos.reshape((D,) + (1,) * D)
                q = np.einsum("i...,ij,j...->...", d_, np.linalg.inv(cov), d_)
                bl = np.exp(-0.5 * q)
                tot = tot + ((1 - bl) if case["one_complement"] else bl)
            res.true("positions_and_variances_in_documented_ranges", okr, key=key + ":ranges")
            res.claim("mean_of_gaussian_blobs", float(np.max(np.abs(u[0] - tot / case["nblobs"]))), 1e-11, key=key + ":formula")
        return res
    # ------------------------------------------------------------------ wrappers
    inner = build_inner(case["inner"], D, L, case)
    res.tag("inner:" + case["inner"])
    if g == "clamp":
        lo, hi = case["limits"]
        gen = I.ClampingICGenerator(inner, limits=(lo, hi))
        base = np.asarray(inner(N, key=k1))
        if np.ptp(base) == 0:
            res.tag("degenerate_constant_inner")
            return res
        u = basic(gen)
        if u is None:
            return res
        res.claim("lower_limit_reached_at_argmin", abs(float(u.ravel()[np.argmin(base)]) - lo), 1e-12 * (abs(lo) + hi - lo), key=key + ":limits")
        res.claim("upper_limit_reached_at_argmax", abs(float(u.ravel()[np.argmax(base)]) - hi), 1e-12 * (abs(hi) + hi - lo), key=key + ":limits")
        res.true("limits_nowhere_exceeded", bool(np.all((u >= lo - 1e-12 * (abs(lo) + hi - lo)) & (u <= hi + 1e-12 * (abs(hi) + hi - lo)))), key=key + ":limits")
        want = (base - base.min()) / (base.max() - base.min()) * (hi - lo) + lo
        res.claim("affine_image_of_inner_draw", float(np.max(np.abs(u - want))), 1e-11 * (abs(lo) + abs(hi)), key=key + ":limits")
        return res
    if g == "scaled":
        gen = I.ScaledICGenerator(inner, case["scale"])
        u = basic(gen)
        if u is None:
            return res
        base = np.asarray(inner(N, key=k1))
        res.claim("scaled_equals_scale_times_inner_same_key", float(np.max(np.abs(u - case["scale"] * base))), 1e-12 * abs(case["scale"]) * (float(np.max(np.abs(base))) + 1e-300), key=key + ":scale")
        if case["inner"] in ("blobs", "discont"):
            function_form(gen, u)
        return res
    if g == "multi":
        other = build_inner("white" if case["inner"] != "white" else "tfs", D, L, case)
        subs = [inner, other, inner]
        gen = I.RandomMultiChannelICGenerator(subs)
        u = basic(gen, nchan=3)
        if u is None:
            return res
        ks = jax.random.split(k1, 3)
        for c, (sg, kk) in enumerate(zip(subs, ks)):
            want = np.asarray(sg(N, key=kk))
            res.claim("channel_is_subgenerator_with_split_key", float(np.max(np.abs(u[c : c + 1] - want))), 1e-12 * (float(np.max(np.abs(want))) + 1e-300), key=key + ":channels")
        if case["inner"] in ("blobs", "discont"):
            gen2 = I.RandomMultiChannelICGenerator([inner, inner])
            u2 = np.asarray(gen2(N, key=k1))
            function_form(gen2, u2)
        return res
    if g == "nested":
        lo, hi = case["limits"]
        gen = I.ClampingICGenerator(I.ScaledICGenerator(inner, case["scale"]), limits=(lo, hi))
        base = np.asarray(inner(N, key=k1)) * case["scale"]
        if np.ptp(base) == 0:
            res.tag("degenerate_constant_inner")
            return res
        u = basic(gen)
        if u is None:
            return res
        tol_lo = 1e-11 * (abs(lo) + hi - lo)
        # the sign of the scale decides which end argmin/argmax of the scaled draw maps to
        res.claim("nested:lower_limit_reached", abs(float(np.min(u)) - lo), tol_lo, key=key + ":limits")
        res.claim("nested:upper_limit_reached", abs(float(np.max(u)) - hi), 1e-11 * (abs(hi) + hi - lo), key=key + ":limits")
        res.claim("nested:argmin_maps_to_lower", abs(float(u.ravel()[np.argmin(base)]) - lo), tol_lo, key=key + ":limits")
        gm = I.RandomMultiChannelICGenerator([gen, I.ScaledICGenerator(gen, 2.0)])
        um = np.asarray(gm(N, key=k1))
        res.true("nested:multi_shape", um.shape == (2,) + (N,) * D, key=key + ":shape")
        return res
    raise KeyError(g)


# ------------------------------------------------------------------ explicit (non-random) IC classes


def x_strata(tier):
    return [dict(id="explicit-D%d" % D, D=D) for D in (1, 2, 3)]


def x_strategy(stratum, tier):
    D = stratum["D"]
    f = lambda lo, hi: st.floats(lo, hi).map(lambda x: float("%.4g" % x))  # noqa: E731
    return st.fixed_dictionaries(
        dict(
            D=st.just(D), N=st.sampled_from([6, 7, 12] if D < 3 else [5, 6]), L=gens.st_L(0.3, 30.0),
            amps=st.lists(gens.nonzero_coef(0.1, 2.0), min_size=1, max_size=4), phases=st.lists(f(0, 6.28), min_size=4, max_size=4),
            ks=st.lists(st.integers(1, 5), min_size=4, max_size=4), offset=st.one_of(st.just(0.0), gens.nonzero_coef(0.1, 2.0)),
            flags=st.tuples(st.booleans(), st.booleans()), pos=st.lists(f(0.1, 0.9), min_size=3, max_size=3), var=st.lists(f(0.01, 0.2), min_size=3, max_size=3),
            box=st.lists(st.tuples(f(0.0, 0.5), f(0.5, 1.0)).map(list), min_size=3, max_size=3), value=gens.nonzero_coef(0.2, 2.0), scale=gens.nonzero_coef(0.2, 3.0),
        )
    )  # fmt: skip


def x_check(case):
    res = R()
    D, N, L = case["D"], case["N"], case["L"]
    key = "C18:explicit"
    res.tag("explicit", "D%d" % D)
    res.nontrivial = True
    grid = ex.make_grid(D, L, N)
    X = orc.own_grid(D, N, L)
    so, mo = case["flags"]
    if D == 1:
        n = len(case["amps"])
        a, ph, ks = case["amps"], case["phases"][:n], case["ks"][:n]
        if (case["offset"] != 0.0 and so) or (so and mo):
            expect_value_error(res, "sine:invalid_options_raise", lambda: I.SineWaves1d(L, tuple(a), tuple(ks), tuple(ph), offset=case["offset"], std_one=so, max_one=mo), key + ":validation")
        else:
            ic = I.SineWaves1d(L, tuple(a), tuple(ks), tuple(ph), offset=case["offset"], std_one=so, max_one=mo)
            u = np.asarray(ic(grid))
            raw = sum(a[i] * np.sin(ks[i] * 2 * math.pi / L * X + ph[i]) for i in range(n)) + case["offset"]
            want = raw / np.std(raw) if so else (raw / np.max(np.abs(raw)) if mo else raw)
            res.claim("sine:formula", float(np.max(np.abs(u - want))), 1e-11 * (float(np.max(np.abs(want))) + 1e-300), key=key + ":sine")
            sc = np.asarray(I.ScaledIC(ic, case["scale"])(grid))
            res.claim("scaled_ic", float(np.max(np.abs(sc - case["scale"] * u))), 1e-12 * abs(case["scale"]) * (float(np.max(np.abs(u))) + 1e-300), key=key + ":scaled")
        expect_value_error(res, "sine:mismatched_lengths_raise", lambda: I.SineWaves1d(L, tuple(a) + (1.0,), tuple(ks), tuple(ph)), key + ":validation")
    else:
        expect_value_error(res, "sine:refuses_2d_grid", lambda: I.SineWaves1d(L, (1.0,), (1,), (0.0,))(grid), key + ":validation")
    pos = np.asarray(case["pos"][:D]) * L
    cov = np.diag(np.asarray(case["var"][:D]) * L)
    blob = GaussianBlob(jnp.asarray(pos), jnp.asarray(cov))
    ub = np.asarray(blob(grid))
    d_ = X - pos.reshape((D,) + (1,) * D)
    want = np.exp(-0.5 * np.einsum("i...,ij,j...->...", d_, np.linalg.inv(cov), d_))[None]
    if res.true("blob:shape", ub.shape == (1,) + (N,) * D, key=key + ":blob"):
        res.claim("blob:formula", float(np.max(np.abs(ub - want))), 1e-12, key=key + ":blob")
    blobs = I.GaussianBlobs((blob, GaussianBlob(jnp.asarray(pos), jnp.asarray(cov), one_complement=True)))
    res.claim("blobs:mean_of_list", float(np.max(np.abs(np.asarray(blobs(grid)) - 0.5))), 1e-12, key=key + ":blob")
    wrong = ex.make_grid(D % 3 + 1, L, N)
    expect_value_error(res, "blob:wrong_number_of_coordinates_raises", lambda: blob(wrong), key + ":validation")
    lb = [case["box"][i][0] * L for i in range(D)]
    ubb = [case["box"][i][1] * L for i in range(D)]
    zm = case["flags"][0]
    dis = I.Discontinuities((Discontinuity(tuple(lb), tuple(ubb), case["value"]),), zero_mean=zm, std_one=False, max_one=False)
    ud = np.asarray(dis(grid))
    m = np.ones((N,) * D, dtype=bool)
    for i in range(D):
        m &= (X[i] > lb[i]) & (X[i] < ubb[i])
    raw = np.where(m, case["value"], 0.0)[None]
    want = raw - raw.mean() if zm else raw
    # a grid point within rounding distance of a box face makes the strict inequality undecidable
    x1 = np.arange(N) * (L / N)
    on_face = any(np.min(np.abs(x1 - b)) < 1e-9 * L for b in lb + ubb)
    if on_face:
        res.tag("grid_point_on_box_face_skipped")
    elif res.true("discontinuity:shape", ud.shape == (1,) + (N,) * D, key=key + ":discontinuity", msg=str(ud.shape)):
        res.claim("discontinuity:formula", float(np.max(np.abs(ud - want))), 1e-12 * abs(case["value"]), key=key + ":discontinuity")
    expect_value_error(res, "discontinuities:invalid_options_raise", lambda: I.Discontinuities((), zero_mean=False, std_one=True), key + ":validation")
    mc = I.MultiChannelIC((blob, dis))
    um = np.asarray(mc(grid))
    if res.true("multichannel:shape", um.shape == (2,) + (N,) * D, key=key + ":multichannel", msg=str(um.shape)):
        res.claim("multichannel:channels", max(float(np.max(np.abs(um[0:1] - ub))), float(np.max(np.abs(um[1:2] - ud)))), 0.0, key=key + ":multichannel")
    return res


SUBS = [
    Sub("generators", check, strata=strata, strategy=strategy, n=(6, 30)),
    Sub("explicit_ics", x_check, strata=x_strata, strategy=x_strategy, n=(20, 100)),
]
