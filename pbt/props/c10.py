"""C10 - incompressibility is enforced and preserved."""

from __future__ import annotations

import math

import numpy as np
from hypothesis import strategies as st

import jax.numpy as jnp

import exponax as ex
from pbt import configs, gens, model, oracles as orc, registry as reg
from pbt.core import R, Sub

RULE = (
    "D in {2,3} x odd/even N. Projections: Hypothesis draws Nyquist-free white-noise vector fields (own "
    "NumPy Nyquist removal), divergence-free fields built by an own Leray projection and as curls of "
    "generated trigonometric potentials, means, L. Claims for ex.nonlin_fun.Leray (Fourier) and "
    "ex.spectral.make_incompressible (physical): zero spectral divergence (own wavenumbers), idempotence, "
    "identity on divergence-free inputs, mutual agreement, agreement with the own projection, mean untouched. "
    "ProjectedConvection3d output divergence-free for white-noise input. NavierStokesVelocity / "
    "KolmogorovFlowVelocity: orders 1-4, drawn nu, drag, forcing, dt, rollouts of up to 20 steps from "
    "divergence-free states with the divergence checked after EVERY step. Non-trivial: input divergence > "
    "1e-3 of the gradient scale (projection acts) / nonlinear term not negligible in the rollout. make_incompressible with indexing=xy against the axis-swapped ij result within an ij/xy/ij call history; linearity on a 1e-9-scaled and on a nearly solenoidal field."
)
ASSUMPTIONS = ["float64 session", "histories stop without failure if the state exceeds 1e3 (unstable dt)"]


def spec_div(u, L):
    """max |sum_d i kappa_d u_hat_d| over the full spectrum, and the scale kappa_nyq * max|u_hat|"""
    D = u.ndim - 1
    N = u.shape[-1]
    U = np.fft.fftn(u, axes=orc.spatial_axes(D))
    kap = 2 * math.pi / L * orc.fft_wavenumbers(D, N)
    div = (1j * kap * U).sum(0)
    return float(np.max(np.abs(div))), math.pi * N / L * float(np.max(np.abs(U))) + 1e-300


def proj_strata(tier):
    ns = {2: [5, 6, 8, 9], 3: [4, 5, 6]} if tier == "quick" else {2: [3, 4, 5, 8, 9, 12, 15, 16], 3: [3, 4, 5, 6, 8, 9]}
    return [dict(id="D%d-N%d" % (D, N), D=D, N=N) for D in (2, 3) for N in ns[D]]


def proj_strategy(stratum, tier):
    D, N = stratum["D"], stratum["N"]
    kmax = max(1, (N - 1) // 2)
    nA = 1 if D == 2 else 3
    return st.fixed_dictionaries(
        dict(
            D=st.just(D),
            N=st.just(N),
            L=st.one_of(gens.st_L(0.3, 30.0), gens.log_floats(1e-3, 1e6)),
            state=gens.st_white(0.2, 3.0, kind="nyqfree"),
            mean=st.lists(gens.coef(-1, 1), min_size=D, max_size=D),
            potential=gens.st_trig(nA, D, kmax, 1, 4),
        )
    )


def curl_of_potential(spec, D, N, L):
    X = orc.own_grid(D, N, L)
    m = spec["modes"]

    def d(ch, axis):
        dv = [0] * D
        dv[axis] = 1
        return orc.eval_trig(m[ch], X, L, deriv=dv)

    if D == 2:
        return np.stack([d(0, 1), -d(0, 0)])
    return np.stack([d(2, 1) - d(1, 2), d(0, 2) - d(2, 0), d(1, 0) - d(0, 1)])


def proj_check(case):
    res = R()
    D, N, L = case["D"], case["N"], case["L"]
    key = "C10:projection:D%d" % D
    res.tag("projection", "D%d" % D, "N%s" % ("odd" if N % 2 else "even"))
    u = orc.make_state(case["state"], D, D, N) + np.asarray(case["mean"]).reshape((D,) + (1,) * D)
    dop = ex.spectral.build_derivative_operator(D, L, N)
    ok, P = res.lib("construct", lambda: ex.nonlin_fun.Leray(D, N, derivative_operator=dop), key=key)
    if not ok:
        return res

    def leray(x):
        return orc.irfftn(np.asarray(P(jnp.asarray(orc.rfftn(x)))), N)

    def mkinc(x):
        return np.asarray(ex.spectral.make_incompressible(jnp.asarray(x)))

    d0, s0 = spec_div(u, L)
    res.nontrivial = d0 > 1e-3 * s0
    amp = float(np.max(np.abs(u)))
    ref = orc.leray_np(u)
    outs = {}
    for name, fn in (("leray", leray), ("make_incompressible", mkinc)):
        ok, pu = res.lib(name, fn, u, key=key + ":" + name)
        if not ok:
            continue
        outs[name] = pu
        if not res.true(name + ":shape", pu.shape == u.shape, key=key + ":" + name, msg=str(pu.shape)):
            continue
        dv, sc = spec_div(pu, L)
        res.claim(name + ":divergence_free", dv, 1e-11 * s0, key=key + ":" + name + ":divergence")
        res.claim(name + ":equals_own_projection", float(np.max(np.abs(pu - ref))), 1e-11 * amp, key=key + ":" + name + ":value")
        ax = orc.spatial_axes(D)
        res.claim(name + ":mean_untouched", float(np.max(np.abs(pu.mean(axis=ax) - u.mean(axis=ax)))), 1e-12 * amp, key=key + ":" + name + ":mean")
        ok, ppu = res.lib(name, fn, pu, key=key + ":" + name)
        if ok:
            res.claim(name + ":idempotent", float(np.max(np.abs(ppu - pu))), 1e-11 * amp, key=key + ":" + name + ":idempotent")
        # identity on divergence-free inputs: own projection and curl of a potential
        for tag, w in (("own_projection", ref), ("curl_of_potential", curl_of_potential(case["potential"], D, N, L))):
            ok, pw = res.lib(name, fn, w, key=key + ":" + name)
            if ok:
                res.claim(name + ":identity_on_divergence_free:" + tag, float(np.max(np.abs(pw - w))), 1e-11 * (float(np.max(np.abs(w))) + 1e-300), key=key + ":" + name + ":identity")
    # scale and near-solenoidal inputs: the projection is linear - a tiny field, or a tiny compressible part on top
    # of a solenoidal field, is projected just the same (no absolute or relative "close enough" shortcut)
    for name, fn in (("leray", leray), ("make_incompressible", mkinc)):
        if name not in outs:
            continue
        for tag, x in (("tiny_field", 1e-9 * u), ("nearly_solenoidal", ref + 1e-7 * (u - ref))):
            ok, px = res.lib(name, fn, x, key=key + ":" + name)
            if ok:
                want_x = orc.leray_np(x)
                # measured against the size of the part that has to be removed
                removed = float(np.max(np.abs(x - want_x))) + 1e-300
                res.claim(name + ":linear:" + tag, float(np.max(np.abs(px - want_x))), 1e-4 * removed + 1e-13 * float(np.max(np.abs(x))), key=key + ":" + name + ":linearity")
    # indexing="xy": channel 0 belongs to array axis 1 and vice versa -> the result must be the "ij" result of the
    # axis-swapped field, swapped back; called between two "ij" calls on the same grid (a history ij, xy, ij: nothing
    # may be remembered from one call to the next)
    if "make_incompressible" in outs:
        def sw(x):
            return np.swapaxes(x, 1, 2)

        ok, pxy = res.lib("make_incompressible_xy", lambda: np.asarray(ex.spectral.make_incompressible(jnp.asarray(sw(u)), indexing="xy")), key=key + ":make_incompressible:xy")
        if ok and res.true("make_incompressible_xy:shape", pxy.shape == u.shape, key=key + ":make_incompressible:xy"):
            res.claim("make_incompressible:xy_equals_swapped_ij", float(np.max(np.abs(sw(pxy) - outs["make_incompressible"]))), 1e-11 * amp, key=key + ":make_incompressible:xy")
        ok, again = res.lib("make_incompressible", mkinc, u, key=key + ":make_incompressible")
        if ok:
            res.claim("make_incompressible:same_result_after_an_xy_call", float(np.max(np.abs(again - outs["make_incompressible"]))), 0.0, key=key + ":make_incompressible:history")
    if len(outs) == 2:
        res.claim("leray_equals_make_incompressible", float(np.max(np.abs(outs["leray"] - outs["make_incompressible"]))), 1e-11 * amp, key=key + ":agreement")
    return res


def conv_strata(tier):
    ns = [6, 7, 8, 9] if tier == "quick" else list(range(6, 14))
    return [dict(id="N%d" % N, N=N) for N in ns]


def conv_strategy(stratum, tier):
    return st.fixed_dictionaries(dict(N=st.just(stratum["N"]), L=st.one_of(gens.st_L(0.3, 30.0), gens.log_floats(1e-3, 1e6)), state=gens.st_white(0.2, 3.0), frac=st.sampled_from(["2/3", "1/2"])))


def conv_check(case):
    res = R()
    N, L = case["N"], case["L"]
    D = 3
    frac = 2 / 3 if case["frac"] == "2/3" else 0.5
    key = "C10:projected_convection"
    res.tag("projected_convection", "N%d" % N)
    u = orc.make_state(case["state"], 3, 3, N)
    dop = ex.spectral.build_derivative_operator(D, L, N)
    ok, nf = res.lib("construct", lambda: ex.nonlin_fun.ProjectedConvection3d(D, N, derivative_operator=dop, dealiasing_fraction=frac), key=key)
    if not ok:
        return res
    ok, Nh = res.lib("call", nf, jnp.asarray(orc.rfftn(u)), key=key)
    if not ok:
        return res
    Nu = orc.irfftn(np.asarray(Nh), N)
    dv, sc = spec_div(Nu, L)
    # scale of the unprojected product: |u| |curl u| N^D kappa
    amp = float(np.max(np.abs(u)))
    big = (math.pi * N / L) ** 2 * amp * amp * N**D
    res.claim("projected_convection:divergence_free", dv, 1e-14 * big, key=key + ":divergence")
    res.nontrivial = bool(np.max(np.abs(Nu)) > 1e-9 * amp * amp * math.pi / L)
    return res


def roll_strata(tier):
    ns = [6, 7] if tier == "quick" else [5, 6, 7, 8, 9, 10]
    return [dict(id="%s-N%d" % (f, N), fam=f, N=N) for f in ("NSVel", "KolmVel") for N in ns]


def roll_strategy(stratum, tier):
    f, N = stratum["fam"], stratum["N"]
    return st.fixed_dictionaries(
        dict(
            fam=st.just(f),
            spec=configs.st_spec(f, 3, N, orders=(1, 2, 3, 4), dt=gens.log_floats(1e-3, 0.3), L=st.one_of(gens.st_L(0.3, 30.0), gens.log_floats(1e-2, 1e6)), contour=True, frac_choice=True),
            state=gens.st_white(0.1, 1.0),
            n=st.integers(1, 20),
        )
    )


def roll_check(case):
    res = R()
    spec = case["spec"]
    N, L, dt = spec["N"], spec["L"], spec["dt"]
    key = "C10:rollout:%s" % spec["cls"]
    p = model.order_of(spec)
    res.tag("rollout", case["fam"], "order%d" % p, "N%s" % ("odd" if N % 2 else "even"))
    u = orc.leray_np(orc.remove_nyquist(orc.make_state(case["state"], 3, 3, N)))
    ok, S = res.lib("construct", reg.build, spec, key=key)
    if not ok:
        return res
    ok, trj = res.lib("rollout", lambda: ex.rollout(S, case["n"])(jnp.asarray(u)), key=key)
    if not ok:
        return res
    trj = np.asarray(trj)
    worst = 0.0
    steps = 0
    base = math.pi * N / L * N**3
    scale = float(np.max(np.abs(u)))
    nf = model.np_nonlin(model.nonlinear_fun(spec))
    G = float(np.max(np.abs(np.asarray(nf(orc.rfftn(u))))))
    for j in range(trj.shape[0]):
        y = trj[j]
        if not np.all(np.isfinite(y)) or np.max(np.abs(y)) > 1e3:
            res.tag("history_stopped_unstable")
            break
        steps += 1
        scale = max(scale, float(np.max(np.abs(y))))
        dv, _ = spec_div(y, L)
        worst = max(worst, dv / (1e-13 * base * (scale + abs(dt) * G / N**3) * (j + 1)))
    if steps:
        res.claim("divergence_free_along_rollout", worst, 1.0, key=key + ":divergence", msg="%d steps" % steps)
    res.nontrivial = bool(G * abs(dt) > 1e-6 * np.max(np.abs(orc.rfftn(u))) and steps >= 1)
    return res


SUBS = [
    Sub("projections", proj_check, strata=proj_strata, strategy=proj_strategy, n=(10, 50), reps=(1, 2)),
    Sub("projected_convection", conv_check, strata=conv_strata, strategy=conv_strategy, n=(6, 30)),
    Sub("rollout", roll_check, strata=roll_strata, strategy=roll_strategy, n=(8, 40), reps=(2, 3)),
]
