"""C06 - results are invariant under jit, vmap and scan composition."""

from __future__ import annotations

import math

import numpy as np
from hypothesis import strategies as st

import equinox as eqx
import jax
import jax.numpy as jnp

import exponax as ex
from pbt import configs, gens, model, oracles as orc, registry as reg
from pbt.core import R, Sub

RULE = (
    "Strata: every stepper family (all exported classes) x D; Hypothesis draws a sound configuration, "
    "order 0-4, a batch of 1-4 distinct white-noise states, a rollout length, one sweepable documented "
    "parameter of the class (dt, domain_extent, every float coefficient, per-axis vectors for velocity / "
    "diffusivity / dispersivity, whole coefficient tuples, injection_scale) and three distinct values for "
    "it. The eager one-at-a-time evaluation is the oracle for: eqx.filter_jit(stepper), jitted "
    "rollout/repeat vs a Python loop, jax.vmap over states (+ independence: replacing one member leaves "
    "the others unchanged), eqx.filter_vmap over the constructor parameter, vmap(rollout) = "
    "swapaxes(rollout(vmap)), repeat = last rollout entry; results finite and of the input dtype. "
    "Non-trivial: batch >= 2 with distinct members, step differs from the identity, swept values distinct. Parameter sweeps also fully compiled (filter_jit of filter_vmap of construct+call); a batch member set to inf/NaN must leave the other members of mapped rollouts unchanged (both nesting orders)."
)
ASSUMPTIONS = [
    "float64 session",
    "sweeps use documented argument types: per-axis vectors (not 0-d arrays) for velocity/diffusivity/dispersivity, which dispatch on isinstance(x, float)",
]

VEC_PARAMS = ("velocity", "diffusivity", "dispersivity")
TUPLE_PARAMS = reg.TUPLE_KW
NOT_SWEEPABLE = ("injection_mode", "order", "single_channel", "conservative", "advect_over_diffuse", "diffuse_over_diffuse",
                 "advect_on_diffusion", "diffuse_on_diffuse", "dealiasing_fraction", "num_circle_points", "circle_radius", "maximum_absolute")  # fmt: skip


def sweepables(spec):
    out = []
    if spec["cls"] not in reg.NO_L_DT:
        out += ["dt", "domain_extent"]
    for k, v in spec["kw"].items():
        if k in NOT_SWEEPABLE or isinstance(v, bool):
            continue
        if spec["cls"] == "DifficultyLinearStepperSimple" and k == "order":
            continue
        out.append(k)
    return out


def strata(tier):
    ns = {1: [8, 9], 2: [6, 7], 3: [5, 6]}
    out = []
    i = 0
    for f in configs.ALL_FAMILIES:
        cls, dims = configs.family_info(f)
        for D in dims:
            i += 1
            if tier == "quick" and len(dims) == 3 and (i % 3) != 0:
                continue  # quick: one dimension per family, rotating
            out.append(dict(id="%s-D%d" % (f, D), fam=f, D=D, N=ns[D][i % 2]))
    return out


def strategy(stratum, tier):
    f, D, N = stratum["fam"], stratum["D"], stratum["N"]
    return st.fixed_dictionaries(
        dict(
            fam=st.just(f),
            spec=configs.st_spec(f, D, N, orders=(0, 1, 2, 3, 4), dt=gens.log_floats(1e-3, 0.1)),
            seed=gens.st_seed(),
            B=st.sampled_from([3, 2, 4, 1]),
            n=st.sampled_from([3, 2, 5, 1, 4]),
            replace=st.integers(0, 3),
            deep=st.just(tier != "quick"),
        )
    )


def check(case):
    res = R()
    spec = case["spec"]
    D, N = spec["D"], spec["N"]
    fam = case["fam"]
    cls = spec["cls"]
    key = "C06:%s" % cls
    p = model.order_of(spec)
    C = model.num_channels(spec)
    B = case["B"]
    n = case["n"]
    res.tag(fam, "D%d" % D, "order%d" % p, "B%d" % B)
    rng = np.random.default_rng(case["seed"])
    U = 0.5 * rng.standard_normal((B, C) + (N,) * D)
    ok, S = res.lib("construct", reg.build, spec, key=key)
    if not ok:
        return res
    jU = jnp.asarray(U)
    eager = [np.asarray(S(jU[b])) for b in range(B)]
    scale = max(float(np.max(np.abs(U))), max(float(np.max(np.abs(e))) for e in eager))
    if not np.isfinite(scale):
        res.tag("non_finite_skipped")
        return res
    tol = 1e-11 * scale
    moved = float(np.max(np.abs(eager[0] - U[0]))) > 1e-9 * scale

    def close(cid, got, want, k=None, t=tol):
        got, want = np.asarray(got), np.asarray(want)
        if not res.true(cid + ":shape", got.shape == want.shape, key=(k or key + ":" + cid), msg="%s vs %s" % (got.shape, want.shape)):
            return
        res.true(cid + ":dtype", got.dtype == want.dtype, key=(k or key + ":" + cid), msg="%s vs %s" % (got.dtype, want.dtype))
        res.true(cid + ":finite", bool(np.all(np.isfinite(got))) or not bool(np.all(np.isfinite(want))), key=(k or key + ":" + cid))
        res.claim(cid, float(np.max(np.abs(got - want))) if np.all(np.isfinite(want)) else 0.0, t, key=(k or key + ":" + cid))

    # ---- (a) jit
    ok, j1 = res.lib("filter_jit", lambda: eqx.filter_jit(S)(jU[0]), key=key + ":jit")
    if ok:
        close("jit_equals_eager", j1, eager[0], k=key + ":jit")
    loop = [jU[0]]
    for _ in range(n):
        loop.append(S(loop[-1]))
    loop = np.stack([np.asarray(x) for x in loop[1:]])
    lscale = max(scale, float(np.max(np.abs(loop)))) if np.all(np.isfinite(loop)) else scale
    ok, jr = res.lib("filter_jit_rollout", lambda: eqx.filter_jit(lambda s, x: ex.rollout(s, n)(x))(S, jU[0]), key=key + ":jit")
    if ok:
        close("jit_rollout_equals_loop", jr, loop, k=key + ":jit_rollout", t=1e-10 * lscale * n)
    if case.get("deep", True):
        ok, er = res.lib("rollout", lambda: ex.rollout(S, n)(jU[0]), key=key)
        if ok:
            close("rollout_equals_loop", er, loop, k=key + ":rollout", t=1e-10 * lscale * n)
    ok, jp = res.lib("jit_repeat", lambda: jax.jit(ex.repeat(S, n))(jU[0]), key=key + ":jit")
    if ok:
        close("jit_repeat_equals_loop_end", jp, loop[-1], k=key + ":jit_repeat", t=1e-10 * lscale * n)

    # ---- (b) vmap over states and independence of the members
    ok, vm = res.lib("vmap", lambda: jax.vmap(S)(jU), key=key + ":vmap")
    if ok:
        close("vmap_equals_loop", vm, np.stack(eager), k=key + ":vmap")
        if B >= 2:
            j = case["replace"] % B
            U2 = U.copy()
            U2[j] = 0.5 * rng.standard_normal(U[j].shape)
            ok2, vm2 = res.lib("vmap", lambda: jax.vmap(S)(jnp.asarray(U2)), key=key + ":vmap")
            if ok2:
                others = [b for b in range(B) if b != j]
                res.claim("vmap_members_independent", float(np.max(np.abs(np.asarray(vm2)[others] - np.asarray(vm)[others]))), 1e-13 * scale, key=key + ":vmap_independence")

    # ---- (d) vmap(rollout) == swapaxes(rollout(vmap))
    ok, a_ = res.lib("vmap_rollout", lambda: jax.vmap(ex.rollout(S, n))(jU), key=key + ":vmap_rollout")
    ok2, b_ = res.lib("rollout_vmap", lambda: ex.rollout(jax.vmap(S), n)(jU), key=key + ":vmap_rollout")
    if ok and ok2:
        a_, b_ = np.asarray(a_), np.asarray(b_)
        if res.true("vmap_rollout:shapes", a_.shape == (B, n, C) + (N,) * D and b_.shape == (n, B, C) + (N,) * D, key=key + ":vmap_rollout", msg="%s %s" % (a_.shape, b_.shape)):
            fin = np.all(np.isfinite(a_)) and np.all(np.isfinite(b_))
            res.claim("vmap_rollout_equals_rollout_vmap", float(np.max(np.abs(a_ - np.swapaxes(b_, 0, 1)))) if fin else 0.0, 1e-10 * lscale * n, key=key + ":vmap_rollout")
            close("vmap_rollout_first_member_equals_loop", a_[0], loop, k=key + ":vmap_rollout", t=1e-10 * lscale * n)

    # ---- (e) a member that blows up (inf / NaN) must not touch the others: "each batch member's result depends
    # only on that member" - in the mapped step and along mapped rollouts, either nesting order
    if B >= 2 and ok and ok2 and np.all(np.isfinite(a_)):
        j = case["replace"] % B
        U3 = U.copy()
        U3[j] = np.where(np.arange(U[j].size).reshape(U[j].shape) % 2 == 0, np.inf, np.nan)
        others = [b for b in range(B) if b != j]
        ok3, c_ = res.lib("rollout_vmap_with_non_finite_member", lambda: ex.rollout(jax.vmap(S), n)(jnp.asarray(U3)), key=key + ":vmap_rollout")
        if ok3:
            c_ = np.asarray(c_)
            res.claim("rollout_vmap_members_independent_of_a_non_finite_member", float(np.max(np.abs(c_[:, others] - b_[:, others]))) if np.all(np.isfinite(c_[:, others])) else float("inf"), 1e-13 * lscale, key=key + ":vmap_independence")
            res.true("non_finite_member_stays_non_finite", not bool(np.any(np.isfinite(c_[-1, j]).all())), key=key + ":vmap_independence:non_finite_member", msg="a state of inf/NaN became finite")
        ok3, d_ = res.lib("vmap_rollout_with_non_finite_member", lambda: jax.vmap(ex.rollout(S, n))(jnp.asarray(U3)), key=key + ":vmap_rollout")
        if ok3:
            d_ = np.asarray(d_)
            res.claim("vmap_rollout_members_independent_of_a_non_finite_member", float(np.max(np.abs(d_[others] - a_[others]))) if np.all(np.isfinite(d_[others])) else float("inf"), 1e-13 * lscale, key=key + ":vmap_independence")
    res.nontrivial = bool(moved and (B >= 2))
    return res


def sweep_frames(stratum, tier):
    return list(range(8))


def sweep_strategy(stratum, tier, frame):
    f, D, N = stratum["fam"], stratum["D"], stratum["N"]
    return st.fixed_dictionaries(
        dict(
            fam=st.just(f),
            spec=configs.st_spec(f, D, N, orders=(0, 1, 2, 3, 4), dt=gens.log_floats(1e-3, 0.1)),
            seed=gens.st_seed(),
            which=st.just(frame),
            factors=st.lists(st.floats(0.5, 1.5).map(lambda x: float("%.3g" % x)), min_size=2, max_size=2, unique=True),
        )
    )


def sweep_check(case):
    res = R()
    spec = case["spec"]
    D, N = spec["D"], spec["N"]
    cls = spec["cls"]
    key = "C06:%s" % cls
    C = model.num_channels(spec)
    names = sweepables(spec)
    if case["which"] >= len(names):
        res.tag("no_such_parameter")
        return res
    res.tag(case["fam"], "D%d" % D, "order%d" % model.order_of(spec))
    rng = np.random.default_rng(case["seed"])
    jU = jnp.asarray(0.5 * rng.standard_normal((1, C) + (N,) * D))
    scale = 0.5
    swept_distinct = False

    def close(cid, got, want, k=None, t=1e-11):
        got, want = np.asarray(got), np.asarray(want)
        if not res.true(cid + ":shape", got.shape == want.shape, key=(k or key + ":" + cid), msg="%s vs %s" % (got.shape, want.shape)):
            return
        res.true(cid + ":dtype", got.dtype == want.dtype, key=(k or key + ":" + cid), msg="%s vs %s" % (got.dtype, want.dtype))
        res.claim(cid, float(np.max(np.abs(got - want))), t, key=(k or key + ":" + cid))

    # ---- (c) filter_vmap over one constructor parameter
    if names:
        name = names[case["which"]]
        res.tag("sweep:" + name)
        f1, f2 = case["factors"]
        facs = [1.0, f1, f2]
        if name == "dt":
            base = np.asarray(spec["dt"])
        elif name == "domain_extent":
            base = np.asarray(spec["L"])
        else:
            base = np.asarray(spec["kw"][name], dtype=float)
            if name in VEC_PARAMS and base.ndim == 0 and cls in ("Advection", "Diffusion", "AdvectionDiffusion", "Dispersion"):
                base = np.ones(D) * base  # documented vector form
        if np.max(np.abs(base)) < 1e-6:
            # a zero base value (e.g. drag = 0): sweep additive values instead of factors
            vals = np.stack([base + a_ for a_ in (0.0, 0.13 * f1, -0.27 * f2)])
        else:
            vals = np.stack([base * f for f in facs])
        swept_distinct = bool(np.max(np.abs(vals[1] - vals[0])) > 0 or np.max(np.abs(vals[2] - vals[0])) > 0)

        def make(v):
            if name == "dt":
                return reg.build(spec, dt=v)
            if name == "domain_extent":
                return reg.build(spec, L=v)
            if name in TUPLE_PARAMS:
                return reg.build(spec, kw={name: tuple(v[i] for i in range(v.shape[0]))})
            return reg.build(spec, kw={name: v})

        def make_eager(v):
            if name in TUPLE_PARAMS:
                return make(np.asarray(v))
            if np.ndim(v) == 0:
                return make(float(v))
            return make(jnp.asarray(v))

        okE, eager_sw = res.lib("eager_sweep", lambda: [np.asarray(make_eager(vals[i])(jU[0])) for i in range(3)], key=key + ":sweep_eager:" + name)
        if okE and all(np.all(np.isfinite(e)) for e in eager_sw):
            ok, steppers = res.lib("filter_vmap_construct", lambda: eqx.filter_vmap(make)(jnp.asarray(vals)), key=key + ":filter_vmap:" + name)
            if ok:
                ok, outs = res.lib(
                    "filter_vmap_call",
                    lambda: eqx.filter_vmap(lambda s, x: s(x), in_axes=(eqx.if_array(0), None))(steppers, jU[0]),
                    key=key + ":filter_vmap:" + name,
                )
                if ok:
                    sw_scale = max(scale, max(float(np.max(np.abs(e))) for e in eager_sw))
                    close("filter_vmap_construct_equals_eager", outs, np.stack(eager_sw), k=key + ":filter_vmap:" + name, t=1e-10 * sw_scale)
            # the fully compiled sweep: construction and call traced together under filter_jit(filter_vmap(.))
            ok, outs = res.lib(
                "jit_filter_vmap_construct_and_call",
                lambda: eqx.filter_jit(lambda vs, x: eqx.filter_vmap(lambda v: make(v)(x))(vs))(jnp.asarray(vals), jU[0]),
                key=key + ":jit_filter_vmap:" + name,
            )
            if ok:
                sw_scale = max(scale, max(float(np.max(np.abs(e))) for e in eager_sw))
                close("jit_filter_vmap_sweep_equals_eager", outs, np.stack(eager_sw), k=key + ":jit_filter_vmap:" + name, t=1e-10 * sw_scale)
    res.nontrivial = bool(swept_distinct)
    return res


SUBS = [
    Sub("transformations", check, strata=strata, strategy=strategy, n=(1, 6)),
    Sub("parameter_sweep", sweep_check, strata=strata, strategy=sweep_strategy, frames=sweep_frames, n=(1, 3)),
]
