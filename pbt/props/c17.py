"""C17 - radial spectrum: every mode lands in its documented bin with Parseval weights."""

from __future__ import annotations

import itertools
import math

import numpy as np
from hypothesis import strategies as st

import jax.numpy as jnp

import exponax as ex
from pbt import gens, oracles as orc
from pbt.core import R, Sub

RULE = (
    "Enumerated: every signed wavenumber vector k of the grid (Nyquist, corners, mixed signs) for the listed "
    "(D, N); per k Hypothesis draws amplitude and phase; all four (power, binning) combinations are checked: "
    "the spectrum of a*cos(2 pi k.j/N + phi) is zero except in bin floor(|k|+1/2) (dropped if > N//2) where "
    "it is a (|a cos phi| if k is self-conjugate) resp. a^2/4 ((a cos phi)^2/2), divided by the number of "
    "stored half-spectrum modes of the bin for 'average'. Generated: white-noise and low-pass states with C "
    "channels against an explicit per-mode sum over the numpy rfftn spectrum, the Parseval sum computed "
    "from the FULL fftn spectrum, channel independence. Non-trivial: k != 0 / state with energy in >= 3 bins. bin_edges: lattice modes with |k|^2 = m(m+1) or m(m+1)+1 on grids up to 300^2 (exact integer bin). dynamic_range: two modes 1e2..1e10 apart and a weak second channel, per-bin relative accuracy; amplitude homogeneity at state scales 1e-200..1e150."
)
ASSUMPTIONS = ["float64 session", "numpy.fft as reference transform"]

OPTS = [(True, "sum"), (True, "average"), (False, "sum"), (False, "average")]

_JIT = {}


def get_spectrum(u, power=True, radial_binning="sum"):
    """ex.get_spectrum under jax.jit (one compilation per shape and option pair; the eager function
    re-traces its internal lax.scan on every call, which costs seconds per case)"""
    import jax

    key = (power, radial_binning)
    if key not in _JIT:
        _JIT[key] = jax.jit(lambda x: ex.get_spectrum(x, power=power, radial_binning=radial_binning))
    return _JIT[key](u)


def bin_of(k):
    return int(math.floor(math.sqrt(sum(x * x for x in k)) + 0.5))


def bin_counts(D, N):
    """number of stored half-spectrum modes per radial bin 0..N//2"""
    w = orc.rfft_wavenumbers(D, N)
    b = np.floor(np.sqrt((w**2).sum(0)) + 0.5).astype(int)
    return np.array([(b == m).sum() for m in range(N // 2 + 1)]), b


def all_k(D, N):
    lo = -(N // 2) if N % 2 == 0 else -((N - 1) // 2)
    hi = (N - 1) // 2
    return [list(k) for k in itertools.product(range(lo, hi + 1), repeat=D)]


def mode_strata(tier):
    if tier == "quick":
        ns = {1: [5, 6, 9, 10], 2: [5, 6, 9, 10], 3: [5, 6]}
    else:
        ns = {1: [3, 4, 5, 6, 9, 10, 15, 16], 2: [3, 4, 5, 6, 7, 8, 9, 10, 13, 16], 3: [3, 4, 5, 6, 7, 8]}
    out = []
    for D in (1, 2, 3):
        for N in ns[D]:
            nk = len(all_k(D, N))
            chunk = 48
            for i in range(0, nk, chunk):
                out.append(dict(id="D%d-N%d-%d" % (D, N, i // chunk), D=D, N=N, lo=i, hi=min(nk, i + chunk)))
    return out


def frames_mode(stratum, tier):
    return all_k(stratum["D"], stratum["N"])[stratum["lo"] : stratum["hi"]]


def strat_mode(stratum, tier, k):
    return st.fixed_dictionaries(
        dict(
            D=st.just(stratum["D"]),
            N=st.just(stratum["N"]),
            k=st.just(list(k)),
            a=gens.nonzero_coef(0.1, 3.0),
            phi=st.one_of(st.sampled_from([0.0, 0.7, math.pi / 3]), st.floats(0, 2 * math.pi).map(lambda x: float("%.4g" % x))),
        )
    )


def check_mode(case):
    D, N, k, a, phi = (case[x] for x in ("D", "N", "k", "a", "phi"))
    res = R()
    res.nontrivial = any(k)
    selfconj = all((2 * x) % N == 0 for x in k)
    b = bin_of(k)
    inside = b <= N // 2
    res.tag("D%d" % D, "N%s" % ("odd" if N % 2 else "even"), "selfconj" if selfconj else "pair", "inside" if inside else "outside_sphere")
    if D >= 2 and any(x < 0 for x in k[:-1]):
        res.tag("negative_leading")
    J = orc.own_grid(D, N, float(N))  # integer index coordinates
    theta = phi + sum(2 * math.pi * k[d] / N * J[d] for d in range(D))
    u = (a * np.cos(theta))[None]
    counts, _ = bin_counts(D, N)
    key = "C17:single_mode:D%d" % D
    for power, binning in OPTS:
        ok, sp = res.lib("get_spectrum", get_spectrum, jnp.asarray(u), power=power, radial_binning=binning, key=key)
        if not ok:
            continue
        sp = np.asarray(sp)
        if not res.true("spectrum:shape", sp.shape == (1, N // 2 + 1), key=key, msg=str(sp.shape)):
            continue
        want = np.zeros(N // 2 + 1)
        if inside:
            if selfconj:
                val = (a * math.cos(phi)) ** 2 / 2 if power else abs(a * math.cos(phi))
            else:
                val = a * a / 4 if power else abs(a)
            if binning == "average" and D >= 2:
                val = val / counts[b]
            want[b] = val
        scale = a * a if power else abs(a)
        cid = "single_mode:%s:%s" % ("power" if power else "amplitude", binning)
        res.claim(
            cid,
            np.max(np.abs(sp[0] - want)),
            1e-12 * scale * (N ** (D / 2)),
            key=key + ":" + ("power" if power else "amplitude") + ":" + binning,
            msg="k=%s bin=%d got=%s want=%s" % (k, b, np.round(sp[0], 6).tolist(), np.round(want, 6).tolist()),
        )
    return res


def state_strata(tier):
    if tier == "quick":
        ns = {1: [5, 8, 16], 2: [5, 8, 9], 3: [4, 5, 6]}
    else:
        ns = {1: [3, 4, 7, 12, 25, 40], 2: [3, 4, 7, 10, 13, 16], 3: [3, 4, 5, 8, 9, 10]}
    cs = (1, 3) if tier == "quick" else (1, 2, 3)
    return [dict(id="D%d-N%d-C%d" % (D, N, C), D=D, N=N, C=C) for D in (1, 2, 3) for N in ns[D] for C in cs] + [dict(id="D%d-anyN-C2" % D, D=D, N="any", C=2, n_max={1: 300, 2: 48, 3: 16}[D]) for D in (1, 2, 3)] + [
        # even sizes with N*fl(1/N) != 1: the Nyquist wavenumber must still be recognised (scaling of the Nyquist bin)
        dict(id="D%d-N%d-C1" % (D, N), D=D, N=N, C=1)
        for D, N in ((1, 98), (1, 196), (1, 214), (2, 98))
    ]


def strat_state(stratum, tier):
    D, N = stratum["D"], stratum["N"]
    return st.fixed_dictionaries(
        dict(
            D=st.just(D),
            N=st.just(N),
            C=st.just(stratum["C"]),
            state=st.one_of(
                gens.st_white(0.1, 3.0),
                gens.st_white(0.1, 3.0, kind="nyqfree"),
                gens.st_white(0.1, 3.0).map(lambda s: dict(s, kind="band", K=max(1, N // 4))),
            ),
            mean=gens.coef(-2, 2),
            chan_scale=gens.nonzero_coef(0.3, 3.0),
        )
    )


def oracle_spectrum(u, power, binning):
    """explicit per-mode sum over the numpy rfftn spectrum with Parseval weights"""
    C = u.shape[0]
    D = u.ndim - 1
    N = u.shape[-1]
    U = orc.rfftn(u) / N**D  # Fourier-series coefficients (half spectrum)
    w = orc.rfft_wavenumbers(D, N)
    last = w[D - 1]
    weight = np.where((last == 0) | ((N % 2 == 0) & (last == N // 2)), 1.0, 2.0)
    if power:
        q = 0.5 * np.abs(U) ** 2 * weight
    else:
        q = np.abs(U) * weight
    if D == 1:
        return q
    counts, b = bin_counts(D, N)
    out = np.zeros((C, N // 2 + 1))
    for m in range(N // 2 + 1):
        sel = b == m
        s = q[:, sel].sum(axis=1)
        out[:, m] = s / counts[m] if binning == "average" else s
    return out


def check_state(case):
    D, N, C = case["D"], case["N"], case["C"]
    res = R()
    u = orc.make_state(case["state"], C, D, N) + case["mean"]
    res.tag("D%d" % D, "C%d" % C, case["state"]["kind"])
    key = "C17:random_state:D%d" % D
    amp = np.max(np.abs(u))
    sps = {}
    for power, binning in OPTS:
        ok, sp = res.lib("get_spectrum", get_spectrum, jnp.asarray(u), power=power, radial_binning=binning, key=key)
        if not ok:
            continue
        sp = np.asarray(sp)
        sps[(power, binning)] = sp
        want = oracle_spectrum(u, power, binning)
        if not res.true("spectrum:shape", sp.shape == want.shape, key=key, msg=str(sp.shape)):
            continue
        scale = amp * amp if power else amp
        res.claim(
            "per_mode_sum:%s:%s" % ("power" if power else "amplitude", binning),
            np.max(np.abs(sp - want)),
            1e-12 * scale * N ** (D / 2),
            key=key + ":" + ("power" if power else "amplitude") + ":" + binning,
        )
    sp = sps.get((True, "sum"))
    if sp is not None:
        res.nontrivial = int(np.sum(sp[0] > 1e-8 * np.max(sp[0]))) >= 3
        # Parseval from the FULL spectrum: half of the mean square of the part inside the Nyquist sphere
        F = np.fft.fftn(u, axes=orc.spatial_axes(D)) / N**D
        kf = orc.fft_wavenumbers(D, N)
        b = np.floor(np.sqrt((kf**2).sum(0)) + 0.5).astype(int)
        inside = b <= N // 2
        want_total = 0.5 * (np.abs(F) ** 2 * inside).sum(axis=orc.spatial_axes(D))
        res.claim("parseval:inside_sphere", np.max(np.abs(sp.sum(axis=1) - want_total)), 1e-12 * amp * amp * N ** (D / 2), key=key + ":parseval")
        if D == 1:
            res.claim("parseval:1d_full", np.max(np.abs(sp.sum(axis=1) - 0.5 * np.mean(u**2, axis=1))), 1e-12 * amp * amp, key=key + ":parseval")
        # default arguments are power=True, sum
        if "default" not in _JIT:
            import jax

            _JIT["default"] = jax.jit(ex.get_spectrum)
        d = np.asarray(_JIT["default"](jnp.asarray(u)))
        res.claim("defaults", np.max(np.abs(d - sp)), 0.0, key=key)
    # channels are independent: scaling/permuting channels acts row-wise
    if C >= 2:
        v = u[::-1].copy()
        v[0] = v[0] * case["chan_scale"]
        for power, binning in OPTS:
            if (power, binning) not in sps:
                continue
            sv = np.asarray(get_spectrum(jnp.asarray(v), power=power, radial_binning=binning))
            want = sps[(power, binning)][::-1].copy()
            want[0] = want[0] * (case["chan_scale"] ** 2 if power else abs(case["chan_scale"]))
            scale = (amp * max(1, abs(case["chan_scale"]))) ** (2 if power else 1)
            res.claim("channel_independence", np.max(np.abs(sv - want)), 1e-12 * scale * N ** (D / 2), key=key + ":channels")
    return res


# ------------------------------------------------------------------ wide dynamic range (per-bin RELATIVE accuracy)


def ts_strata(tier):
    ns = {1: [9, 16], 2: [8, 9], 3: [6]} if tier == "quick" else {1: [7, 9, 16, 33], 2: [7, 8, 9, 12], 3: [5, 6, 8]}
    return [dict(id="D%d-N%d" % (D, N), D=D, N=N) for D in (1, 2, 3) for N in ns[D]]


def ts_strategy(stratum, tier):
    D, N = stratum["D"], stratum["N"]
    kmax = (N - 1) // 2
    kvec = st.lists(st.integers(-kmax, kmax), min_size=D, max_size=D)
    return st.fixed_dictionaries(
        dict(D=st.just(D), N=st.just(N), k1=kvec, k2=kvec, a1=gens.nonzero_coef(0.5, 3.0), ratio_exp=st.floats(2.0, 10.0).map(lambda x: float("%.3g" % x)),
             phi=st.floats(0, 6.28).map(lambda x: float("%.3g" % x)), chan_exp=st.floats(0.0, 9.0).map(lambda x: float("%.3g" % x)), scale_pick=st.integers(0, 2))
    )  # fmt: skip


def ts_check(case):
    D, N, k1, k2 = case["D"], case["N"], case["k1"], case["k2"]
    res = R()
    b1, b2 = bin_of(k1), bin_of(k2)
    sc1 = all((2 * x) % N == 0 for x in k1)
    sc2 = all((2 * x) % N == 0 for x in k2)
    key = "C17:dynamic_range:D%d" % D
    if b1 == b2 or b1 > N // 2 or b2 > N // 2 or sc1 or sc2:
        res.tag("same_bin_or_outside_skipped")
        return res
    res.nontrivial = True
    a1 = case["a1"]
    a2 = a1 * 10.0 ** (-case["ratio_exp"])
    res.tag("dynamic_range", "D%d" % D, "ratio=1e-%d" % int(case["ratio_exp"]))
    J = orc.own_grid(D, N, float(N))
    th1 = sum(2 * math.pi * k1[d] / N * J[d] for d in range(D))
    th2 = case["phi"] + sum(2 * math.pi * k2[d] / N * J[d] for d in range(D))
    f = a1 * np.cos(th1) + a2 * np.cos(th2)
    cs = 10.0 ** (-case["chan_exp"])
    u = np.stack([f, cs * f[::-1].copy() if D == 1 else cs * np.swapaxes(f, 0, 1)])  # second channel: much weaker
    counts, _ = bin_counts(D, N)
    eps = 2.2e-16
    for power, binning in OPTS:
        ok, sp = res.lib("get_spectrum", get_spectrum, jnp.asarray(u), power=power, radial_binning=binning, key=key)
        if not ok:
            continue
        sp = np.asarray(sp)
        for ch, amp_scale in ((0, 1.0), (1, cs)):
            for b, a in ((b1, a1 * amp_scale), (b2, a2 * amp_scale)):
                want = a * a / 4 if power else abs(a)
                if binning == "average" and D >= 2:
                    want = want / counts[b]
                # rounding floor of the transform of THIS channel: eps * (largest amplitude of the channel) * N^(D/2)
                fl = 50 * eps * abs(a1) * amp_scale * N ** (D / 2)
                floor = (2 * fl * abs(a) + fl * fl) if power else fl
                if binning == "average" and D >= 2:
                    floor = floor / counts[b]
                if want < 100 * floor:
                    continue
                res.claim(
                    "bin_value_relative:%s:%s" % ("power" if power else "amplitude", binning),
                    abs(float(sp[ch, b]) - want),
                    1e-6 * want + floor,
                    key=key + ":" + ("power" if power else "amplitude"),
                    msg="channel %d bin %d amplitude %.3g next to %.3g: got %.6g want %.6g" % (ch, b, a, a1, sp[ch, b], want),
                )
    # overall scale: the amplitude spectrum is homogeneous of degree one for every representable scale (a
    # squared modulus formed before the square root under- or overflows long before the amplitude does)
    for dtype, exps in ((np.float64, (-200, -160, 150)), (np.float32, (-30, -24, 18))):
        e = exps[case.get("scale_pick", 0) % len(exps)]
        c = 10.0**e
        us = (np.stack([f, f]) * c).astype(dtype)
        tagd = "float32" if dtype is np.float32 else "float64"
        ok, sp = res.lib("get_spectrum", get_spectrum, jnp.asarray(us), power=False, radial_binning="sum", key=key + ":scaled:" + tagd)
        if ok:
            sp = np.asarray(sp, dtype=np.float64)
            rel = 1e-6 if dtype is np.float64 else 2e-4
            res.claim(
                "amplitude_homogeneous_under_scaling:" + tagd,
                abs(float(sp[0, b1]) / c - abs(a1)),
                rel * abs(a1) * N ** (D / 2),
                key=key + ":scaled:" + tagd,
                msg="state scale 1e%d: bin %d got %.6g want %.6g" % (e, b1, sp[0, b1], abs(a1) * c),
            )
    return res


# ------------------------------------------------------------------ lattice points next to a bin edge (large grids)


def exact_bin(s_):
    """radial bin of a mode with |k|^2 = s_ in exact integer arithmetic: |k| < m + 1/2  <=>  s_ <= m^2 + m"""
    m = math.isqrt(s_)
    return m if s_ <= m * m + m else m + 1


def edge_strata(tier):
    ns = [64, 256] if tier == "quick" else [48, 64, 128, 232, 256, 300]
    return [dict(id="D2-N%d" % N, D=2, N=N) for N in ns] + [dict(id="D3-N%d" % N, D=3, N=N) for N in ((20,) if tier == "quick" else (20, 32))]


def edge_strategy(stratum, tier):
    return st.fixed_dictionaries(
        dict(D=st.just(stratum["D"]), N=st.just(stratum["N"]), picks=st.lists(st.integers(0, 10**6), min_size=4, max_size=4), top=st.booleans(),
             a=gens.nonzero_coef(0.5, 2.0), phi=st.floats(0.1, 1.4).map(lambda x: float("%.3g" % x)))
    )  # fmt: skip


_EDGE_CACHE = {}


def edge_candidates(D, N):
    """stored wavenumber vectors whose |k|^2 is m(m+1) (just below the edge m+1/2: gap ~ 1/(8m)) or m(m+1)+1 (just above)"""
    if (D, N) not in _EDGE_CACHE:
        w = orc.rfft_wavenumbers(D, N).astype(int)
        s2 = (w**2).sum(0)
        m = np.floor(np.sqrt(s2)).astype(int)
        m = np.where(m * m > s2, m - 1, m)
        near = ((s2 == m * m + m) | (s2 == m * m + m + 1)) & (s2 > 0)
        if N % 2 == 0:
            near &= np.all(np.abs(w) < N // 2, axis=0)
        idx = np.argwhere(near)
        ks = [tuple(int(w[d][tuple(i)]) for d in range(D)) for i in idx]
        def _gap(k):
            s_ = sum(x * x for x in k)
            m_ = math.isqrt(s_)
            return abs(math.sqrt(s_) - (m_ + 0.5)) / (m_ + 0.5)

        ks.sort(key=lambda k: (_gap(k), k))  # smallest relative distance to a bin edge first
        _EDGE_CACHE[(D, N)] = ks
    return _EDGE_CACHE[(D, N)]


def edge_check(case):
    D, N = case["D"], case["N"]
    res = R()
    key = "C17:bin_edge:D%d" % D
    cands = edge_candidates(D, N)
    if not cands:
        return res
    res.nontrivial = True
    res.tag("bin_edge", "D%d" % D, "N%d" % N)
    J = orc.own_grid(D, N, float(N))
    for pick in case["picks"]:
        # 'top': the modes with the smallest relative gap to a bin edge - otherwise anywhere in the list
        k = cands[pick % max(8, len(cands) // 20)] if case["top"] else cands[pick % len(cands)]
        s2 = sum(x * x for x in k)
        b = exact_bin(s2)
        th = case["phi"] + sum(2 * math.pi * k[d] / N * J[d] for d in range(D))
        u = (case["a"] * np.cos(th))[None]
        ok, sp = res.lib("get_spectrum", get_spectrum, jnp.asarray(u), power=False, radial_binning="sum", key=key)
        if not ok:
            continue
        sp = np.asarray(sp)[0]
        tol = 1e-9 * abs(case["a"]) * N ** (D / 2)
        if b <= N // 2:
            res.claim("edge_mode_in_its_bin", abs(float(sp[b]) - abs(case["a"])), tol, key=key, msg="k=%s |k|^2=%d bin %d: got %.6g want %.6g" % (k, s2, b, sp[b], abs(case["a"])))
        rest = np.delete(sp, b) if b <= N // 2 else sp
        res.claim("edge_mode_nowhere_else", float(np.max(np.abs(rest))), tol, key=key, msg="k=%s |k|^2=%d bin %d: largest other bin %.3g at %d" % (k, s2, b, float(np.max(np.abs(rest))), int(np.argmax(np.abs(rest)))))
    return res


SUBS = [
    Sub("single_mode", check_mode, strata=mode_strata, strategy=strat_mode, frames=frames_mode, n=(2, 4), exhaustive=True),
    Sub("bin_edges", edge_check, strata=edge_strata, strategy=edge_strategy, n=(6, 30)),
    Sub("dynamic_range", ts_check, strata=ts_strata, strategy=ts_strategy, n=(20, 120)),
    Sub("random_state", check_state, strata=state_strata, strategy=strat_state, n=(10, 60), reps=(1, 2)),
]
