"""C15 - Fourier interpolation and resolution changes are exact for band-limited states."""

from __future__ import annotations

import math

import numpy as np
from hypothesis import strategies as st

import jax
import jax.numpy as jnp

import exponax as ex
from pbt import gens, oracles as orc
from pbt.core import R, Sub

RULE = (
    "Strata: D x (N_old, N_new) pairs of all parity combinations incl. N_new = N_old +- 1 and factor-2 "
    "changes. Hypothesis draws trigonometric polynomials resolved by both grids (signed wavenumbers up to "
    "(min(N_old,N_new)-1)//2), C in 1..3, L, query points in [-2L, 3L]^D, indexing, oddball_zero, and "
    "white-noise states (Nyquist content included). Oracle: own analytic evaluation of the polynomial at "
    "the query points / on an own N_new grid; round trip; channel means. Non-trivial: N_old != N_new and "
    "a mode with a negative leading-axis wavenumber at |k| = kmax (D>=2) resp. a mode at kmax (1D)."
)
ASSUMPTIONS = ["float64 session", "'xy' indexing as numpy.meshgrid: coordinate 0 varies along array axis 1"]


def strata(tier):
    if tier == "quick":
        pairs = {
            1: [(8, 9), (9, 8), (8, 16), (7, 12), (12, 7), (16, 8), (9, 15), (10, 10), (98, 99), (196, 98)],  # 98, 196: N*fl(1/N) != 1
            2: [(6, 7), (7, 6), (5, 8), (8, 5), (6, 12), (9, 9)],
            3: [(4, 5), (5, 4), (4, 6), (5, 7), (6, 3)],
        }
    else:
        pairs = {
            1: [(a, b) for a in (3, 4, 7, 8, 15, 16, 31) for b in (3, 4, 5, 8, 9, 16, 17, 30, 40)] + [(98, 99), (196, 98), (206, 103), (214, 215), (49, 98)],
            2: [(a, b) for a in (3, 4, 7, 8, 13) for b in (3, 4, 5, 8, 9, 14, 16)],
            3: [(a, b) for a in (3, 4, 5, 8) for b in (3, 4, 5, 6, 9, 10)],
        }
    return [dict(id="D%d-%d-%d" % (D, a, b), D=D, No=a, Nn=b) for D in (1, 2, 3) for (a, b) in pairs[D]] + [dict(id="D%d-anyN" % D, D=D, No=None, Nn=None) for D in (1, 2, 3)]


def strategy(stratum, tier):
    D, No, Nn = stratum["D"], stratum["No"], stratum["Nn"]
    if No is None:
        # both grid sizes drawn from a wide range (incl. N_new = N_old +- 1 and sizes delicate for floating point)
        hi = {1: 200, 2: 32, 3: 12}[D]
        any_n = gens.st_any_n(D, tier, 3, hi)
        pair = st.one_of(st.tuples(any_n, any_n), any_n.flatmap(lambda a: st.sampled_from([(a, a + 1), (a + 1, a), (a, 2 * a), (2 * a, a), (a, a)])))
        return pair.flatmap(lambda ab: strategy(dict(stratum, No=ab[0], Nn=ab[1]), tier))
    kmax = max(0, (min(No, Nn) - 1) // 2)
    return st.integers(1, 3).flatmap(
        lambda C: st.fixed_dictionaries(
            dict(
                D=st.just(D),
                No=st.just(No),
                Nn=st.just(Nn),
                C=st.just(C),
                L=gens.st_L(extreme=True),
                idx=st.sampled_from(["ij", "ij", "xy"]),
                oddball_zero=st.booleans(),
                state=gens.st_trig(C, D, kmax, 1, 5),
                noise=gens.st_white(0.1, 3.0),
                mean=gens.coef(-2, 2),
                points=st.lists(
                    st.lists(st.floats(-2.0, 3.0).map(lambda x: float("%.5g" % x)), min_size=D, max_size=D),
                    min_size=1,
                    max_size=5,
                ),
            )
        )
    )


def perm(D, idx):
    p = list(range(D))
    if idx == "xy" and D >= 2:
        p[0], p[1] = 1, 0
    return p


def check(case):
    D, No, Nn, C, L, idx = (case[k] for k in ("D", "No", "Nn", "C", "L", "idx"))
    res = R()
    modes = case["state"]["modes"]
    kmax = max(0, (min(No, Nn) - 1) // 2)
    ks = [m[0] for ch in modes for m in ch]
    if D == 1:
        at_edge = any(abs(k[0]) == kmax for k in ks)
    else:
        at_edge = any(any(k[d] == -kmax for d in range(D - 1)) for k in ks)
    res.nontrivial = (No != Nn) and at_edge and kmax >= 1
    res.tag("D%d" % D, "C%d" % C, idx, "%s->%s" % ("odd" if No % 2 else "even", "odd" if Nn % 2 else "even"),
            "up" if Nn > No else ("down" if Nn < No else "same"))  # fmt: skip
    amp = max(sum(abs(m[1]) for m in ch) for ch in modes) + abs(case["mean"])
    key = "C15:D%d" % D
    p = perm(D, idx)

    def coords(N):
        own = orc.own_grid(D, N, L)
        return np.stack([own[p[c]] for c in range(D)])  # coordinate c on the array of this indexing

    def sample(N):
        X = coords(N)
        return np.stack([orc.eval_trig(ch, X, L) for ch in modes]) + case["mean"]

    u = sample(No)
    # ---------------- FourierInterpolator
    ok, itp = res.lib("interpolator", lambda: ex.FourierInterpolator(jnp.asarray(u), domain_extent=L, indexing=idx), key=key)
    if ok:
        pts = np.asarray(case["points"], dtype=float) * L
        ok2, vals = res.lib("interpolate", lambda: jax.vmap(itp)(jnp.asarray(pts)), key=key)
        if ok2:
            vals = np.asarray(vals)
            if res.true("interp:shape", vals.shape == (len(pts), C), key=key, msg=str(vals.shape)):
                want = np.stack([[orc.eval_trig(ch, pt.reshape((D,) + (1,) * 0), L) for ch in modes] for pt in pts]) + case["mean"]
                res.claim("interp:analytic", np.max(np.abs(vals - want.reshape(vals.shape))), 1e-11 * amp * No ** (D / 2), key=key + ":interp")
            one = np.asarray(itp(jnp.asarray(pts[0])))
            res.claim("interp:vmap_vs_single", np.max(np.abs(one - vals[0])), 1e-13 * amp * No ** (D / 2), key=key + ":interp")
    # arbitrary state (Nyquist content included) reproduced at its own grid points
    w = orc.make_state(case["noise"], C, D, No) + case["mean"]
    ok, itw = res.lib("interpolator", lambda: ex.FourierInterpolator(jnp.asarray(w), domain_extent=L, indexing=idx), key=key)
    if ok:
        Xo = coords(No)
        rng = np.random.default_rng(case["noise"]["seed"])
        flat = rng.choice(No**D, size=min(6, No**D), replace=False)
        J = np.stack(np.unravel_index(flat, (No,) * D), axis=1)
        pts = np.stack([[Xo[(c,) + tuple(j)] for c in range(D)] for j in J])
        shift = rng.integers(-2, 3, size=pts.shape) * L  # periodic images
        vals = np.asarray(jax.vmap(itw)(jnp.asarray(pts + shift)))
        want = np.stack([w[(slice(None),) + tuple(j)] for j in J])
        res.claim("interp:own_grid_points", np.max(np.abs(vals - want)), 1e-11 * np.max(np.abs(w)) * No ** (D / 2), key=key + ":interp_grid")
    # ---------------- map_between_resolutions (always "ij": it takes no indexing argument)
    if idx == "ij":
        oz = case["oddball_zero"]
        ok, un = res.lib("map", ex.map_between_resolutions, jnp.asarray(u), Nn, oddball_zero=oz, key=key)
        if ok:
            un = np.asarray(un)
            if res.true("map:shape", un.shape == (C,) + (Nn,) * D, key=key, msg=str(un.shape)):
                tol = 1e-11 * amp * max(No, Nn) ** (D / 2)
                res.claim("map:samples_same_function", np.max(np.abs(un - sample(Nn))), tol, key=key + ":map")
                ok2, ub = res.lib("map", ex.map_between_resolutions, jnp.asarray(un), No, oddball_zero=oz, key=key)
                if ok2:
                    res.claim("map:round_trip", np.max(np.abs(np.asarray(ub) - u)), tol, key=key + ":map")
        # homogeneity: the resolution change is linear - a state of amplitude 1e-18 or 1e12 is mapped just the same (no
        # absolute clean-up threshold)
        if ok:
            for cs in (1e-18, 1e12):
                ok3, us = res.lib("map", ex.map_between_resolutions, jnp.asarray(cs * u), Nn, oddball_zero=oz, key=key)
                if ok3 and np.asarray(us).shape == np.asarray(un).shape:
                    res.claim("map:homogeneous", float(np.max(np.abs(np.asarray(us) / cs - un))), 1e-9 * (float(np.max(np.abs(un))) + 1e-300), key=key + ":map_homogeneity", msg="scale %g" % cs)
        ok, wn = res.lib("map", ex.map_between_resolutions, jnp.asarray(w), Nn, oddball_zero=oz, key=key)
        if ok:
            wn = np.asarray(wn)
            if res.true("map:shape", wn.shape == (C,) + (Nn,) * D, key=key, msg=str(wn.shape)):
                ax = orc.spatial_axes(D)
                res.claim(
                    "map:mean_preserved",
                    np.max(np.abs(wn.mean(axis=ax) - w.mean(axis=ax))),
                    1e-12 * np.max(np.abs(w)),
                    key=key + ":mean",
                )
                if No == Nn:
                    res.claim("map:identity", np.max(np.abs(wn - w)), 0.0, key=key + ":map")
    return res


SUBS = [Sub("interp_and_map", check, strata=strata, strategy=strategy, n=(12, 40), reps=(1, 2))]
