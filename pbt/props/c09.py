"""C09 - conserved quantities and equilibria survive the discretisation exactly."""

from __future__ import annotations

import math

import numpy as np
from hypothesis import strategies as st

import jax.numpy as jnp

import exponax as ex
from pbt import configs, gens, model, oracles as orc, registry as reg
from pbt.core import R, Sub

RULE = (
    "Mean: every stepper family whose nonlinear term is in conservation form (linear steppers, Burgers/KdV/"
    "KS-conservative in conservative, single-channel or 1D form, combustion KS, Cahn-Hilliard, 2D vorticity "
    "and 3D velocity Navier-Stokes/Kolmogorov, the generic/normalized/difficulty counterparts) x D x odd/even "
    "N x orders 0-4, white-noise states (3D velocity: own Leray-projected, Nyquist-free), dt in [1e-3, 10], "
    "histories of up to 12 steps: after every step mean_c = exp(lambda_0 dt)^n mean_c(u_0) with lambda_0 the "
    "documented symbol at k=0 (0 for the conservation laws; drag / a_0*D otherwise). Non-conservative "
    "multi-channel forms in D>=2 are measured but not asserted. No work: band-limited states |k|_inf <= K, "
    "<u,N(u)> = 0 for 1D / single-channel convection, <psi,N(omega)> = <omega,N(omega)> = 0 for 2D vorticity "
    "convection, <u,P(u x omega)> = 0 for divergence-free 3D fields (physical-space quadrature, own psi). "
    "Equilibria: every constant root of lambda_0 u + N(u) = 0 computed from the coefficients is a fixed "
    "point (orders 1-4, lambda_0 dt <= 5). Non-trivial: non-zero mean and >= 2 non-DC modes; root != 0."
)
ASSUMPTIONS = [
    "float64 session",
    "3D velocity claims on divergence-free states only (mean(u x omega) = mean(u div u) != 0 for compressible states in exact arithmetic)",
    "histories stop (without failure) when the state exceeds 1e3 or becomes non-finite (unstable dt); growth lambda_0*dt*n <= 5",
    "equilibria: dt is reduced until dt*(|lambda_0| + |N'(u*)|) <= 1, otherwise the fixed point of the ETDRK map itself amplifies rounding noise by many decades per step (measured 2.5e4 per ETDRK2 step for Allen-Cahn at lambda_0*dt = 5)",
]


def mean_conserving(spec):
    """None if the family is not claimed; otherwise 'assert' or 'measure_only'"""
    cls = spec["cls"]
    kw = model.full_kw(spec)
    D = spec["D"]
    if cls in ("Wave", "FisherKPP", "AllenCahn", "SwiftHohenberg", "GrayScott"):
        return None
    if cls in ("GeneralPolynomialStepper", "NormalizedPolynomialStepper", "DifficultyPolynomialStepper"):
        return None
    if cls in ("GeneralNonlinearStepper", "NormalizedNonlinearStepper", "DifficultyNonlinearStepper"):
        b0 = kw.get("nonlinear_coefficients", kw.get("normalized_nonlinear_coefficients", kw.get("nonlinear_difficulties")))[0]
        return "assert" if b0 == 0 else None
    if "single_channel" in kw:
        if kw["conservative"] or kw["single_channel"] or D == 1:
            return "assert"
        return "measure_only"
    return "assert"


MEAN_FAMILIES = [f for f in configs.ALL_FAMILIES if f not in ("Wave", "Fisher", "AllenCahn", "SwiftHohenberg", "GrayScott", "GenPoly", "GenPoly3", "NormPoly", "DiffPoly")]


def mean_strata(tier):
    ns = {1: [8, 9], 2: [6, 7], 3: [5, 6]} if tier == "quick" else {1: [7, 8, 12, 17], 2: [5, 6, 9, 10], 3: [5, 6, 7, 8]}
    out = []
    i = 0
    for f in MEAN_FAMILIES:
        cls, dims = configs.family_info(f)
        for D in dims:
            i += 1
            for N in ([ns[D][i % len(ns[D])]] if tier == "quick" else ns[D]):
                out.append(dict(id="%s-D%d-N%d" % (f, D, N), fam=f, D=D, N=N))
    return out


def mean_strategy(stratum, tier):
    f, D, N = stratum["fam"], stratum["D"], stratum["N"]
    return st.fixed_dictionaries(
        dict(
            fam=st.just(f),
            spec=configs.st_spec(f, D, N, orders=(0, 1, 2, 3, 4), dt=gens.log_floats(1e-3, 10.0)),
            state=gens.st_white(0.1, 1.0),
            mean=st.lists(gens.nonzero_coef(0.05, 1.0), min_size=3, max_size=3),
            n=st.integers(1, 12),
        )
    )


def mean_check(case):
    res = R()
    spec = case["spec"]
    D, N = spec["D"], spec["N"]
    fam = case["fam"]
    key = "C09:mean:%s" % spec["cls"]
    mode = mean_conserving(spec)
    p = model.order_of(spec)
    res.tag("mean", fam, "D%d" % D, "order%d" % p, str(mode))
    if mode is None:
        return res
    C = model.num_channels(spec)
    u = orc.make_state(case["state"], C, D, N)
    if spec["cls"] in ("NavierStokesVelocity", "KolmogorovFlowVelocity"):
        u = orc.leray_np(orc.remove_nyquist(u))
    u = u + np.asarray(case["mean"][:C]).reshape((C,) + (1,) * D)
    ok, S = res.lib("construct", reg.build, spec, key=key)
    if not ok:
        return res
    L, dt = reg.eff_L_dt(spec)
    kap0 = np.zeros((D, 1))
    lam0 = model.symbol(spec, kap0)[:, 0]  # (E,)
    lam0 = np.broadcast_to(lam0, (C,)) if lam0.shape[0] == 1 else lam0
    nf = model.np_nonlin(model.nonlinear_fun(spec)) if p > 0 else None
    ax = orc.spatial_axes(D)
    m0 = u.mean(axis=ax)
    x = jnp.asarray(u)
    n = case["n"]
    if float(np.max(lam0.real)) * dt * n > 5:
        n = max(1, int(5 / (float(np.max(lam0.real)) * dt)))
    worst = 0.0
    drift = 0.0
    steps = 0
    bound = 0.0
    for j in range(1, n + 1):
        xu = np.asarray(x)
        G = float(np.max(np.abs(orc.irfftn(nf(orc.rfftn(xu)), N)))) if nf is not None else 0.0
        # r = dt*|N(u)|/|u|: the ETDRK stage values are up to (1 + r) times larger than u and the products formed inside
        # the pseudo-spectral evaluation (whose MEAN cancels, so it is not visible in |N|) up to (1 + r)^2 times; beyond
        # r = 10 the step is a blow-up (amplitude 1 -> 600 in the case that prompted this) and says nothing about the
        # bookkeeping of the mean
        r_ = abs(dt) * G / (float(np.max(np.abs(xu))) + 1e-300)
        if r_ > 10.0:
            res.tag("history_stopped_nonlinear_blow_up")
            break
        ok, x = res.lib("call", S, x, key=key)
        if not ok:
            return res
        y = np.asarray(x)
        if not np.all(np.isfinite(y)) or np.max(np.abs(y)) > 1e3:
            res.tag("history_stopped_unstable")
            break
        # the stages lie between the old and the new state: linearly growing modes (anti-diffusion) make the new state
        # and its nonlinear term the larger ones
        Gy = float(np.max(np.abs(orc.irfftn(nf(orc.rfftn(y)), N)))) if nf is not None else 0.0
        ry_ = abs(dt) * Gy / (float(np.max(np.abs(y))) + 1e-300)
        if ry_ > 10.0:
            res.tag("history_stopped_nonlinear_blow_up")
            break
        bound += (max(float(np.max(np.abs(xu))), float(np.max(np.abs(y)))) + abs(dt) * max(G, Gy)) * (1.0 + max(r_, ry_)) ** 2
        steps = j
        want = (np.exp(lam0 * dt * j) * m0).real
        g = max(1.0, float(np.max(np.exp((lam0 * dt * j).real))))
        err = float(np.max(np.abs(y.mean(axis=ax) - want)))
        drift = max(drift, err)
        worst = max(worst, err / (1e-12 * bound * g * (1 + abs(dt) * float(np.max(np.abs(lam0))))))
    if steps == 0:
        return res
    if mode == "assert":
        res.claim("mean_conserved_along_history", worst, 1.0, key=key + ":mean", msg="drift %.3g after %d steps" % (drift, steps))
    else:
        res.tag("nonconservative_multichannel_drift>1e-9" if drift > 1e-9 else "nonconservative_multichannel_drift<=1e-9")
    Uh = np.abs(orc.rfftn(u))
    res.nontrivial = bool(mode == "assert" and np.sum(Uh > 1e-3 * np.max(Uh)) >= 3 and p >= 1)
    return res


# ------------------------------------------------------------------ no work

NOWORK = [("conv1d", (1,)), ("conv_single_noncons", (2, 3)), ("conv_single_cons", (2, 3)), ("conv1d_cons", (1,)), ("vorticity2d", (2,)), ("projected3d", (3,))]


def work_strata(tier):
    ns = {1: [3, 4, 5, 8, 9, 12, 16, 18], 2: [3, 4, 8, 9, 12, 16], 3: [3, 4, 6, 8, 9]} if tier == "quick" else {1: list(range(3, 31, 1)), 2: list(range(3, 19)), 3: list(range(3, 14))}
    return [dict(id="%s-D%d-N%d" % (v, D, N), v=v, D=D, N=N) for v, dims in NOWORK for D in dims for N in ns[D]]


def work_strategy(stratum, tier):
    v, D, N = stratum["v"], stratum["D"], stratum["N"]
    return st.fixed_dictionaries(
        dict(
            v=st.just(v),
            D=st.just(D),
            N=st.just(N),
            L=gens.st_L(0.3, 30.0, extreme=True),
            frac=st.sampled_from(["2/3", "2/3", "1/2"]),
            scale=gens.nonzero_coef(0.2, 3.0),
            seed=gens.st_seed(),
            mean=st.one_of(st.just(0.0), gens.nonzero_coef(0.1, 1.0)),
        )
    )


def work_check(case):
    res = R()
    v, D, N, L = case["v"], case["D"], case["N"], case["L"]
    frac = 2 / 3 if case["frac"] == "2/3" else 0.5
    K = orc.cutoff_K(N, frac)
    key = "C09:no_work:%s" % v
    res.tag("no_work", v, "D%d" % D, "Nmod6=%d" % (N % 6))
    C = 3 if v == "projected3d" else 1
    if K < 1:
        res.tag("K<1")  # documented band is empty: only the claim on the band the function itself retains is made
    u = orc.band_limit(orc.white(case["seed"], (C,) + (N,) * D, 1.0), max(K, 0)) + case["mean"]
    if v == "projected3d":
        u = orc.leray_np(u)
    dop = ex.spectral.build_derivative_operator(D, L, N)
    NF = ex.nonlin_fun
    if v.startswith("conv"):
        nf = NF.ConvectionNonlinearFun(D, N, derivative_operator=dop, dealiasing_fraction=frac, scale=case["scale"], single_channel=True, conservative=v.endswith("cons"))
    elif v == "vorticity2d":
        nf = NF.VorticityConvection2d(D, N, convection_scale=case["scale"], derivative_operator=dop, dealiasing_fraction=frac)
    else:
        nf = NF.ProjectedConvection3d(D, N, derivative_operator=dop, dealiasing_fraction=frac)
    ok, Nh = res.lib("call", nf, jnp.asarray(orc.rfftn(u)), key=key)
    if not ok:
        return res
    Nu = orc.irfftn(np.asarray(Nh), N)
    scale = float(np.max(np.abs(u))) * float(np.max(np.abs(Nu))) * N**D + 1e-300
    res.claim("energy_work", abs(float(np.sum(u * Nu))), 1e-11 * scale, key=key + ":energy")
    # the same on the band the function itself retains (its own dealiasing mask): the triple products
    # of whatever it keeps must be alias-free, otherwise integration by parts fails discretely
    mask = np.asarray(nf.dealiasing_mask)
    w = orc.irfftn(mask * orc.rfftn(orc.white(case["seed"] + 1, (C,) + (N,) * D, 1.0)), N) + case["mean"]
    if v == "projected3d":
        w = orc.leray_np(w)
    ok, Wh = res.lib("call", nf, jnp.asarray(orc.rfftn(w)), key=key)
    if ok:
        Nw = orc.irfftn(np.asarray(Wh), N)
        sc = float(np.max(np.abs(w))) * float(np.max(np.abs(Nw))) * N**D + 1e-300
        res.claim("energy_work_on_own_retained_band", abs(float(np.sum(w * Nw))), 1e-11 * sc, key=key + ":energy_own_band")
        if v == "vorticity2d":
            res.claim("enstrophy_work_on_own_retained_band", abs(float(np.sum(w * Nw))), 1e-11 * sc, key=key + ":energy_own_band")
    if v == "vorticity2d":
        # stream function by an own inverse Laplacian
        kap = 2 * math.pi / L * orc.fft_wavenumbers(D, N)
        k2 = (kap**2).sum(0)
        W = np.fft.fftn(u, axes=(1, 2))
        psi = np.fft.ifftn(np.where(k2 == 0, 0.0, -W / np.where(k2 == 0, 1.0, k2)), axes=(1, 2)).real
        sc2 = float(np.max(np.abs(psi))) * float(np.max(np.abs(Nu))) * N**D + 1e-300
        res.claim("streamfunction_work", abs(float(np.sum(psi * Nu))), 1e-11 * sc2, key=key + ":energy")
    res.nontrivial = bool(np.max(np.abs(Nu)) > 1e-6 * np.max(np.abs(u)))
    return res


# ------------------------------------------------------------------ constant equilibria

EQ_FAMILIES = ["Fisher", "AllenCahn", "SwiftHohenberg", "GrayScott", "GenPoly3", "GenPoly", "Burgers_mn", "Burgers_sc", "KdV_mnAD", "KdV_scad", "KS", "KSCons_mc", "CahnHilliard", "NSVort", "NSVel", "GenConv_mn", "GenGradNorm", "GenNonlin", "GenVort", "NormPoly", "DiffPoly", "NormConv_sc"]


def eq_strata(tier):
    ns = {1: [8, 9], 2: [6, 7], 3: [5, 6]} if tier == "quick" else {1: [7, 8, 12, 17], 2: [5, 6, 9, 10], 3: [5, 6, 7]}
    out = []
    i = 0
    for f in EQ_FAMILIES:
        cls, dims = configs.family_info(f)
        for D in dims:
            i += 1
            for N in ([ns[D][i % len(ns[D])]] if tier == "quick" else ns[D]):
                out.append(dict(id="%s-D%d-N%d" % (f, D, N), fam=f, D=D, N=N))
    return out


def eq_strategy(stratum, tier):
    f, D, N = stratum["fam"], stratum["D"], stratum["N"]
    return st.fixed_dictionaries(
        dict(
            fam=st.just(f),
            spec=configs.st_spec(f, D, N, orders=(1, 2, 3, 4), dt=gens.log_floats(1e-3, 10.0), contour=True),
            const=st.lists(gens.nonzero_coef(0.1, 2.0), min_size=3, max_size=3),
            n=st.integers(1, 4),
        )
    )


def equilibria(spec, const):
    """list of constant equilibria (each a list of C values) computed from the documented equation"""
    cls = spec["cls"]
    kw = model.full_kw(spec)
    D = spec["D"]
    C = model.num_channels(spec)
    kap0 = np.zeros((D, 1))
    lam0 = model.symbol(spec, kap0)[:, 0].real

    def poly_roots(p):
        # lam0*u + sum_k p_k u^k = 0
        c = list(p) + [0.0] * max(0, 2 - len(p))
        c[1] += float(lam0[0])
        while len(c) > 1 and c[-1] == 0:
            c.pop()
        if len(c) <= 1:
            return []
        r = np.roots(c[::-1])
        return [[float(x.real)] for x in r if abs(x.imag) < 1e-9 * max(1.0, abs(x))]

    if cls == "FisherKPP":
        return [[0.0], [1.0]]
    if cls == "AllenCahn":
        c1, c3 = kw["first_order_coefficient"], kw["third_order_coefficient"]
        out = [[0.0]]
        if -c1 / c3 > 0:
            out += [[math.sqrt(-c1 / c3)], [-math.sqrt(-c1 / c3)]]
        return out
    if cls == "SwiftHohenberg":
        return poly_roots(kw["polynomial_coefficients"])
    if cls == "GeneralPolynomialStepper":
        return poly_roots(kw["polynomial_coefficients"])
    if cls == "NormalizedPolynomialStepper":
        return poly_roots(kw["normalized_polynomial_coefficients"])
    if cls == "DifficultyPolynomialStepper":
        return poly_roots(kw["polynomial_difficulties"])
    if cls == "GrayScott":
        f, k = kw["feed_rate"], kw["kill_rate"]
        out = [[1.0, 0.0]]
        disc = f * f - 4 * f * (f + k) ** 2
        if disc >= 0:
            for sgn in (1, -1):
                v = (f + sgn * math.sqrt(disc)) / (2 * (f + k))
                if v != 0:
                    out.append([(f + k) / v, v])
        return out
    # conservation-form equations: any constant is an equilibrium iff lambda_0 = 0
    if np.all(lam0 == 0):
        if cls in ("GeneralNonlinearStepper", "NormalizedNonlinearStepper", "DifficultyNonlinearStepper"):
            b0 = kw.get("nonlinear_coefficients", kw.get("normalized_nonlinear_coefficients", kw.get("nonlinear_difficulties")))[0]
            if b0 != 0:
                return [[0.0]]
        return [list(const[:C]), [0.0] * C]
    return [[0.0] * C]


def eq_check(case):
    res = R()
    spec = case["spec"]
    D, N = spec["D"], spec["N"]
    fam = case["fam"]
    key = "C09:equilibrium:%s" % spec["cls"]
    p = model.order_of(spec)
    res.tag("equilibria", fam, "D%d" % D, "order%d" % p)
    C = model.num_channels(spec)
    L, dt = reg.eff_L_dt(spec)
    kap0 = np.zeros((D, 1))
    lam0 = float(np.max(model.symbol(spec, kap0)[:, 0].real))
    if lam0 * dt > 5 and spec["cls"] not in reg.NO_L_DT:
        spec = dict(spec, dt=5.0 / lam0)
        dt = spec["dt"]
    eqs = equilibria(spec, case["const"])
    res.tag("n_equilibria=%d" % len(eqs))
    # the fixed point of the ETDRK map amplifies rounding noise by about (|e^{z0}| + dt*phi*|N'(u*)|)^stages per
    # step; the property asks for "growth*dt bounded so that rounding is not amplified": dt*(|lambda_0| + |N'(u*)|) <= 1
    nf_lin = model.np_nonlin(model.nonlinear_fun(spec))

    def nprime(e):
        base = np.ones((C,) + (N,) * D) * np.asarray(e, dtype=float).reshape((C,) + (1,) * D)
        eps = 1e-6 * max(1.0, max(abs(v) for v in e))
        worst_ = 0.0
        # probes: a constant and, per axis and wavenumber, a cosine and a sine - derivative-bearing terms
        # (convection u*.grad(delta), Cahn-Hilliard 3u*^2 Laplace(delta)) only respond to the latter; rounding noise
        # lives in all modes
        J = orc.own_grid(D, N, float(N))
        kh = (N - 1) // 2
        probes = [np.ones((N,) * D)]
        for k_ in range(1, kh + 1):  # every wavenumber: the dealiasing removes the highest ones from the nonlinear term
            for d_ax in range(D):
                probes.append(np.cos(2 * math.pi * k_ * J[d_ax] / N))
                probes.append(np.sin(2 * math.pi * k_ * J[d_ax] / N))
            if D >= 2:
                probes.append(np.cos(2 * math.pi * k_ * sum(J[d_ax] for d_ax in range(D)) / N))
        for c in range(C):
            for pr_ in probes:
                dvec = np.zeros_like(base)
                dvec[c] = eps * pr_
                d_ = (orc.irfftn(nf_lin(orc.rfftn(base + dvec)), N) - orc.irfftn(nf_lin(orc.rfftn(base - dvec)), N)) / (2 * eps)
                worst_ = max(worst_, float(np.max(np.abs(d_))))
        return worst_

    leff = abs(lam0) + max([nprime(e) for e in eqs] + [0.0])
    if abs(dt) * leff > 1.0:
        if spec["cls"] in reg.NO_L_DT:
            res.tag("amplifying_fixed_point_skipped")
            return res
        spec = dict(spec, dt=float("%.6g" % (1.0 / leff)))
        dt = spec["dt"]
        nf_lin = model.np_nonlin(model.nonlinear_fun(spec))
    ok, S = res.lib("construct", reg.build, spec, key=key)
    if not ok:
        return res
    for e in eqs:
        ustar = np.ones((C,) + (N,) * D) * np.asarray(e, dtype=float).reshape((C,) + (1,) * D)
        x = jnp.asarray(ustar)
        for _ in range(case["n"]):
            ok, x = res.lib("call", S, x, key=key)
            if not ok:
                return res
        y = np.asarray(x)
        amp = max(abs(v) for v in e)
        g = 8.0 ** case["n"]
        # polynomial nonlinearities: the rounding of the cancelling terms lambda_0 u* and N(u*) scales with their size
        mag = amp + abs(dt) * (abs(lam0) * amp + _poly_mag(spec, amp))
        # inaccuracy of the numerically computed root: the residual of the equilibrium equation at u*
        # (own evaluation through the documented nonlinear term) is propagated by at most dt*g per step
        rhs = model.symbol(spec, kap0)[:, 0].real.reshape((-1,) + (1,) * D) * ustar + orc.irfftn(model.np_nonlin(model.nonlinear_fun(spec))(orc.rfftn(ustar)), N)
        resid_eq = float(np.max(np.abs(rhs)))
        res.claim(
            "constant_equilibrium_is_fixed_point",
            float(np.max(np.abs(y - ustar))),
            (1e-11 * mag + 10 * resid_eq * abs(dt)) * g * case["n"] + 1e-300,
            key=key,
            msg="u* = %s" % e,
        )
        if amp > 0:
            res.nontrivial = True
    return res


def _poly_mag(spec, amp):
    kw = model.full_kw(spec)
    for name in ("polynomial_coefficients", "normalized_polynomial_coefficients", "polynomial_difficulties"):
        if name in kw:
            return sum(abs(c) * amp**k for k, c in enumerate(kw[name]))
    if spec["cls"] == "FisherKPP":
        return abs(kw["reactivity"]) * amp**2
    if spec["cls"] == "AllenCahn":
        return abs(kw["third_order_coefficient"]) * amp**3
    if spec["cls"] == "GrayScott":
        return (kw["feed_rate"] + kw["kill_rate"]) * (1 + amp) + amp**3
    return 0.0


# ------------------------------------------------------------------ equilibria on a lattice of round values
# (lambda_0*dt = 1, 0.5, 2 ... exactly: coincidences that continuous draws never produce)

LATV = [0.25, 0.5, 1.0, 2.0]
EQ_LAT = {
    "FisherKPP": dict(diffusivity=LATV, reactivity=LATV),
    "AllenCahn": dict(diffusivity=LATV, first_order_coefficient=LATV, third_order_coefficient=[-1.0, -2.0, -0.5]),
    "SwiftHohenberg": dict(reactivity=[0.5, 1.0, 2.0, 3.0], critical_number=[0.5, 1.0]),
    "GeneralPolynomialStepper": dict(linear_coefficients=[[1.0, 0.0, 1.0], [0.5, 0.0, 0.25], [2.0, 0.0, 1.0]], polynomial_coefficients=[[0.0, 0.0, -1.0], [0.0, 0.0, -2.0], [0.0, 0.0, 1.0, -1.0]]),
}


def eql_strata(tier):
    return [dict(id="%s-D%d" % (c, D), cls=c, D=D) for c in EQ_LAT for D in (1, 2)]


def eql_strategy(stratum, tier):
    c, D = stratum["cls"], stratum["D"]
    kw = {k: st.sampled_from(v) for k, v in EQ_LAT[c].items()}
    kw["order"] = st.sampled_from([3, 4, 2, 1])
    return st.fixed_dictionaries(
        dict(cls=st.just(c), D=st.just(D), N=st.sampled_from([8, 9] if D == 1 else [6, 7]), L=st.sampled_from([1.0, 2 * math.pi, 2.0]),
             dt=st.sampled_from([0.25, 0.5, 1.0, 2.0]), kw=st.fixed_dictionaries(kw), n=st.sampled_from([1, 2]))
    )  # fmt: skip


def eql_check(case):
    res = R()
    kw = dict(case["kw"])
    for k_ in ("linear_coefficients", "polynomial_coefficients"):
        if k_ in kw:
            kw[k_] = list(kw[k_])
    if case["cls"] == "GeneralPolynomialStepper" and len(kw["polynomial_coefficients"]) == 4:
        kw["dealiasing_fraction"] = 0.5
    spec = dict(cls=case["cls"], D=case["D"], N=case["N"], L=case["L"], dt=case["dt"], kw=kw)
    D, N = spec["D"], spec["N"]
    C = 1
    key = "C09:equilibrium_lattice:%s" % spec["cls"]
    kap0 = np.zeros((D, 1))
    lam0 = float(model.symbol(spec, kap0)[0, 0].real)
    dt = spec["dt"]
    res.tag("equilibria_lattice", spec["cls"], "order%d" % kw["order"], "z0=%g" % round(lam0 * dt, 6))
    eqs = equilibria(spec, [1.0, 1.0, 1.0])
    nf_lin = model.np_nonlin(model.nonlinear_fun(spec))
    ok, S = res.lib("construct", reg.build, spec, key=key)
    if not ok:
        return res
    for e in eqs:
        ustar = np.ones((C,) + (N,) * D) * e[0]
        eps = 1e-6 * max(1.0, abs(e[0]))
        npr = float(np.max(np.abs((orc.irfftn(nf_lin(orc.rfftn(ustar + eps)), N) - orc.irfftn(nf_lin(orc.rfftn(ustar - eps)), N)) / (2 * eps))))
        if abs(dt) * (abs(lam0) + npr) > 4.0:
            res.tag("amplifying_fixed_point_skipped")
            continue
        x = jnp.asarray(ustar)
        for _ in range(case["n"]):
            ok, x = res.lib("call", S, x, key=key)
            if not ok:
                return res
        y = np.asarray(x)
        amp = abs(e[0])
        rhs = lam0 * ustar + orc.irfftn(nf_lin(orc.rfftn(ustar)), N)
        mag = amp + abs(dt) * (abs(lam0) * amp + _poly_mag(spec, amp))
        tol = (1e-11 * mag + 10 * float(np.max(np.abs(rhs))) * abs(dt)) * 300.0 ** case["n"] + 1e-300
        res.true("lattice_equilibrium_step_finite", bool(np.all(np.isfinite(y))), key=key + ":finite", msg="u* = %s, lambda_0*dt = %g" % (e, lam0 * dt))
        if np.all(np.isfinite(y)):
            res.claim("lattice_equilibrium_is_fixed_point", float(np.max(np.abs(y - ustar))), tol, key=key, msg="u* = %s, lambda_0*dt = %g" % (e, lam0 * dt))
        if amp > 0:
            res.nontrivial = True
    return res


SUBS = [
    Sub("mean", mean_check, strata=mean_strata, strategy=mean_strategy, n=(2, 10)),
    Sub("no_work", work_check, strata=work_strata, strategy=work_strategy, n=(8, 20)),
    Sub("equilibria", eq_check, strata=eq_strata, strategy=eq_strategy, n=(3, 12)),
    Sub("equilibria_lattice", eql_check, strata=eql_strata, strategy=eql_strategy, n=(8, 80)),
]
