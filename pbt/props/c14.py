"""C14 - rollout, repeat and the wrapper steppers equal the naive loop.

The trajectory utilities are driven by a Hypothesis RuleBasedStateMachine: the real side calls
ex.rollout / ex.repeat / ex.stack_sub_trajectories on an integer-valued bookkeeping step function over
pytrees, the model is a plain Python loop over NumPy integers, so equality is exact.  Every history is
recorded as a JSON list of operations; `check(case)` re-executes a recorded history without Hypothesis
(this is the replay path and the unit the evidence counts)."""

from __future__ import annotations

import math

import numpy as np
from hypothesis import strategies as st

import jax
import jax.numpy as jnp
import jax.random as jr

import exponax as ex
from pbt import configs, gens, model, oracles as orc, registry as reg
from pbt.core import R, Sub, Violation, _eval_case, is_known

RULE = (
    "Stateful: a rule-based machine generates histories (<= 20 / 40 rules) of single_step, rollout(n in "
    "0..12, include_init, takes_aux, constant_aux), repeat(n, ...), rollout_of_repeat(k, n), "
    "windows(sub_len) on the last trajectory (valid lengths, sub_len > T, ragged leaves) over an "
    "integer-valued step function u -> (a*u + b + aux) mod m on pytrees (array / tuple / nested dict with "
    "leaves of different shapes); after every rule the real state must equal the Python-loop model exactly "
    "(values, shapes, pytree structure, dtypes). The machine continues from the produced state, so nestings "
    "arise as histories; functions returned by rollout/repeat are also kept and called again later in the history "
    "with an aux container (NumPy buffers in the same dict/tuple object) refilled in place. Generated wrappers: RepeatedStepper(S, n) for every stepper family = n applications "
    "(Nyquist-free state if S has odd-order linear terms on an even grid), dt = n*dt, step_fourier = n-fold "
    "step_fourier; build_ic_set = documented sequential key-splitting loop. Non-trivial history: >= 1 "
    "rollout with n >= 2, a window query and pairwise distinct aux entries."
)
ASSUMPTIONS = ["float64/int64 session", "a recorded history (list of operations) is the replayable case"]

M = 1000003  # modulus of the bookkeeping map

# ------------------------------------------------------------------ bookkeeping step function on pytrees

STRUCTS = ["array", "tuple", "dict"]


def init_tree(struct, seed):
    rng = np.random.default_rng(seed)

    def leaf(shape):
        return rng.integers(0, M, size=shape).astype(np.int64)

    if struct == "array":
        return leaf((3,))
    if struct == "tuple":
        return (leaf((2, 2)), leaf(()))
    return {"a": leaf((4,)), "b": (leaf((1, 3)), leaf((2,)))}


def tree_map_np(f, *trees):
    t0 = trees[0]
    if isinstance(t0, dict):
        return {k: tree_map_np(f, *[t[k] for t in trees]) for k in t0}
    if isinstance(t0, tuple):
        return tuple(tree_map_np(f, *[t[i] for t in trees]) for i in range(len(t0)))
    return f(*trees)


def leaves_np(t):
    if isinstance(t, dict):
        return [x for k in sorted(t) for x in leaves_np(t[k])]
    if isinstance(t, tuple):
        return [x for s in t for x in leaves_np(s)]
    return [t]


def assign_inplace(dst, src):
    """refill the NumPy leaves of `dst` with the values of `src` without creating new objects"""
    if isinstance(dst, dict):
        for k in dst:
            assign_inplace(dst[k], src[k])
    elif isinstance(dst, tuple):
        for d, s_ in zip(dst, src):
            assign_inplace(d, s_)
    else:
        np.copyto(dst, np.asarray(src))


def to_jax(t):
    return tree_map_np(lambda x: jnp.asarray(x), t)


def step_np(u, a, b, aux=None, aux_kind=None):
    if aux is None:
        return tree_map_np(lambda x: (a * x + b) % M, u)
    if aux_kind == "scalar":
        return tree_map_np(lambda x: (a * x + b + aux) % M, u)
    return tree_map_np(lambda x, y: (a * x + b + y) % M, u, aux)


def make_step_jax(a, b, takes_aux, aux_kind):
    if not takes_aux:
        return lambda u: jax.tree_util.tree_map(lambda x: (a * x + b) % M, u)
    if aux_kind == "scalar":
        return lambda u, aux: jax.tree_util.tree_map(lambda x: (a * x + b + aux) % M, u)
    return lambda u, aux: jax.tree_util.tree_map(lambda x, y: (a * x + b + y) % M, u, aux)


def aux_np(struct, aux_kind, seed, n=None):
    """aux pytree; with n: a sequence (leading axis n) of pairwise distinct entries"""
    rng = np.random.default_rng(seed)
    if aux_kind == "scalar":
        if n is None:
            return np.int64(rng.integers(1, 1000))
        return (np.arange(n, dtype=np.int64) * 7 + rng.integers(1, 1000)).astype(np.int64)
    base = init_tree(struct, seed + 1)
    if n is None:
        return tree_map_np(lambda x: x % 1000, base)
    return tree_map_np(lambda x: ((x % 1000)[None] + 13 * np.arange(n, dtype=np.int64).reshape((n,) + (1,) * x.ndim)), base)


def same_structure(real, mod):
    """structure, shapes, dtypes kind and values equal; returns (ok, message)"""
    if isinstance(mod, dict):
        if not isinstance(real, dict) or sorted(real) != sorted(mod):
            return False, "dict structure differs"
        for k in mod:
            ok, m = same_structure(real[k], mod[k])
            if not ok:
                return ok, "[%s] %s" % (k, m)
        return True, ""
    if isinstance(mod, tuple):
        if not isinstance(real, tuple) or len(real) != len(mod):
            return False, "tuple structure differs"
        for i in range(len(mod)):
            ok, m = same_structure(real[i], mod[i])
            if not ok:
                return ok, "[%d] %s" % (i, m)
        return True, ""
    r = np.asarray(real)
    if r.shape != np.asarray(mod).shape:
        return False, "shape %s vs %s" % (r.shape, np.asarray(mod).shape)
    if not np.issubdtype(r.dtype, np.integer):
        return False, "dtype %s" % r.dtype
    if not np.array_equal(r, mod):
        return False, "values differ: %s vs %s" % (r.ravel()[:6].tolist(), np.asarray(mod).ravel()[:6].tolist())
    return True, ""


class Exec:
    """executes a history against the library and against the Python-loop model"""

    def __init__(self):
        self.res = R()
        self.state = None
        self.struct = None
        self.trj = None  # last model trajectory (pytree with leading time axis) or None
        self.a = 3
        self.b = 5
        self.n_rollouts2 = 0
        self.n_windows = 0
        self.aux_seq = 0
        self.fns = {}  # reuse: signature -> [function returned by rollout/repeat, mutable aux holder]
        self.n_reused = 0

    def claim(self, cid, ok, msg, key):
        self.res.true(cid, ok, key=key, msg=msg)

    def apply(self, op):
        k = op["op"]
        key = "C14:" + k
        if k == "init":
            self.struct = op["struct"]
            self.state = init_tree(op["struct"], op["seed"])
            self.a, self.b = op["a"], op["b"]
            return
        if k == "single_step":
            f = make_step_jax(self.a, self.b, False, None)
            real = f(to_jax(self.state))
            self.state = step_np(self.state, self.a, self.b)
            ok, m = same_structure(real, self.state)
            self.claim("single_step", ok, m, key)
            return
        if k in ("rollout", "repeat", "rollout_of_repeat"):
            n = op["n"]
            takes_aux = op.get("takes_aux", False)
            const = op.get("constant_aux", True)
            aux_kind = op.get("aux_kind", "scalar")
            inc = op.get("include_init", False)
            kk = op.get("k", 1)
            f = make_step_jax(self.a, self.b, takes_aux, aux_kind)
            aux = None
            if takes_aux:
                aux = aux_np(self.struct, aux_kind, op["aux_seed"], None if const else n)
                if not const and n >= 2:
                    self.aux_seq += 1
            # ---- model: plain loop
            traj = []
            x = self.state
            for i in range(n):
                for _ in range(kk):
                    if takes_aux:
                        ai = aux if const else tree_map_np(lambda t: t[i], aux) if aux_kind != "scalar" else aux[i]
                        x = step_np(x, self.a, self.b, ai, aux_kind)
                    else:
                        x = step_np(x, self.a, self.b)
                traj.append(x)
            # ---- real
            try:
                sig = "%s|%d|%s|%s|%s|%s|%d" % (k, n, inc, takes_aux, const, aux_kind, kk)
                slot = self.fns.get(sig) if op.get("reuse") else None
                if slot is not None:
                    fn = slot[0]  # the SAME function object returned by an earlier rollout/repeat call
                    self.n_reused += 1
                elif k == "rollout":
                    fn = ex.rollout(f, n, include_init=inc, takes_aux=takes_aux, constant_aux=const)
                elif k == "repeat":
                    fn = ex.repeat(f, n, takes_aux=takes_aux, constant_aux=const)
                else:
                    fn = ex.rollout(ex.repeat(f, kk), n, include_init=inc)
                if op.get("reuse") and takes_aux:
                    # the aux is one mutable container (NumPy buffers in the same dict / tuple) that is refilled in
                    # place between calls, as a forcing buffer would be; the same object is passed every time
                    if slot is None or slot[1] is None:
                        holder = tree_map_np(lambda x: np.array(x), aux)
                    else:
                        holder = slot[1]
                        assign_inplace(holder, aux)
                    self.fns[sig] = [fn, holder]
                    real = fn(to_jax(self.state), holder)
                else:
                    if op.get("reuse"):
                        self.fns[sig] = [fn, None]
                    real = fn(to_jax(self.state), to_jax(aux)) if takes_aux else fn(to_jax(self.state))
            except Exception as e:  # noqa: BLE001
                self.claim(k + ":raises", False, "%s: %s" % (type(e).__name__, str(e)[:200]), key + ":raises:" + type(e).__name__)
                return
            if k == "repeat":
                want = traj[-1] if n > 0 else self.state
                ok, m = same_structure(real, want)
                self.claim("repeat_equals_last_loop_state", ok, "n=%d %s" % (n, m), key + (":n0" if n == 0 else ""))
            else:
                full = ([self.state] if inc else []) + traj
                T = len(full)
                if T == 0:
                    want = tree_map_np(lambda x0: np.zeros((0,) + np.asarray(x0).shape, dtype=np.int64), self.state)
                else:
                    want = tree_map_np(lambda *xs: np.stack(xs), *full)
                ok, m = same_structure(real, want)
                self.claim(
                    "rollout_equals_loop",
                    ok,
                    "n=%d include_init=%s takes_aux=%s constant_aux=%s %s" % (n, inc, takes_aux, const, m),
                    key + (":n0" if n == 0 else "") + (":include_init" if inc else "") + (":aux" if takes_aux else "") + ("" if const else ":aux_sequence"),
                )
                self.trj = want
                if n >= 2:
                    self.n_rollouts2 += 1
            if n > 0:
                self.state = traj[-1]
            return
        if k == "windows":
            if self.trj is None:
                return
            T = leaves_np(self.trj)[0].shape[0]
            sub_len = op["sub_len"]
            mode = op.get("mode", "valid")
            trj = self.trj
            if mode == "ragged":
                lv = leaves_np(trj)
                if len(lv) < 2 or T < 2:
                    return
                # drop one time step from the first leaf of a copy
                first = [True]

                def cut(x):
                    if first[0]:
                        first[0] = False
                        return x[:-1]
                    return x

                trj = tree_map_np(cut, trj)
                try:
                    ex.stack_sub_trajectories(to_jax(trj), 1)
                    self.claim("windows:ragged_raises_ValueError", False, "no exception", key + ":ragged")
                except ValueError:
                    self.claim("windows:ragged_raises_ValueError", True, "", key + ":ragged")
                except Exception as e:  # noqa: BLE001
                    self.claim("windows:ragged_raises_ValueError", False, type(e).__name__, key + ":ragged")
                return
            if sub_len > T:
                try:
                    ex.stack_sub_trajectories(to_jax(trj), sub_len)
                    self.claim("windows:too_long_raises_ValueError", False, "no exception for sub_len=%d > T=%d" % (sub_len, T), key + ":too_long")
                except ValueError:
                    self.claim("windows:too_long_raises_ValueError", True, "", key + ":too_long")
                except Exception as e:  # noqa: BLE001
                    self.claim("windows:too_long_raises_ValueError", False, type(e).__name__, key + ":too_long")
                return
            try:
                real = ex.stack_sub_trajectories(to_jax(trj), sub_len)
            except Exception as e:  # noqa: BLE001
                self.claim("windows:raises", False, "%s: %s (sub_len=%d T=%d)" % (type(e).__name__, str(e)[:100], sub_len, T), key + ":raises")
                return
            want = tree_map_np(lambda x: np.stack([x[i : i + sub_len] for i in range(T - sub_len + 1)]), trj)
            ok, m = same_structure(real, want)
            self.claim("windows_are_all_contiguous_subtrajectories", ok, "sub_len=%d T=%d %s" % (sub_len, T, m), key)
            self.n_windows += 1
            return
        raise KeyError(k)


def check(case):
    """re-execute a recorded history (replay path / corpus)"""
    e = Exec()
    for op in case["history"]:
        e.apply(op)
    e.res.nontrivial = bool(e.n_rollouts2 >= 1 and e.n_windows >= 1)
    ops = [o["op"] for o in case["history"]]
    e.res.tag("len=%d" % min(len(ops), 40), *sorted(set(ops)))
    if any(o.get("n") == 0 for o in case["history"]):
        e.res.tag("has_n=0")
    if any(o.get("takes_aux") and not o.get("constant_aux", True) for o in case["history"]):
        e.res.tag("has_aux_sequence")
    if any(o.get("include_init") for o in case["history"]):
        e.res.tag("has_include_init")
    return e.res


def machine_runner(prop, sub, stratum, tier, seed, stats, open_known):
    import hypothesis
    from hypothesis import HealthCheck, Phase, Verbosity, settings
    from hypothesis.stateful import RuleBasedStateMachine, initialize, precondition, rule, run_state_machine_as_test

    best = dict(hist=None, fails=None)
    n_machines = sub.count(tier, stratum)
    steps = 20 if tier == "quick" else 40

    class Machine(RuleBasedStateMachine):
        def __init__(self):
            super().__init__()
            self.e = Exec()
            self.history = []

        def _do(self, op):
            self.history.append(op)
            before = len(self.e.res.fails)
            self.e.apply(op)
            new = [f for f in self.e.res.fails[before:] if is_known(prop, f, open_known) is None]
            if new:
                best["hist"] = list(self.history)
                best["fails"] = new
                raise Violation()

        @initialize(struct=st.sampled_from(STRUCTS), seed=st.integers(0, 10**6), a=st.integers(1, 50), b=st.integers(0, 1000))
        def init(self, struct, seed, a, b):
            self._do(dict(op="init", struct=struct, seed=seed, a=a, b=b))

        @rule()
        def single_step(self):
            self._do(dict(op="single_step"))

        @rule(n=st.integers(0, 12), include_init=st.booleans(), takes_aux=st.booleans(), constant_aux=st.booleans(),
              aux_kind=st.sampled_from(["scalar", "same"]), aux_seed=st.integers(0, 10**6))  # fmt: skip
        def rollout(self, n, include_init, takes_aux, constant_aux, aux_kind, aux_seed):
            self._do(dict(op="rollout", n=n, include_init=include_init, takes_aux=takes_aux, constant_aux=constant_aux, aux_kind=aux_kind, aux_seed=aux_seed))

        # the function returned by rollout / repeat is kept and called again later in the history (few distinct
        # signatures so that repeats are frequent), with an aux container that is refilled in place
        @rule(which=st.sampled_from(["rollout", "repeat"]), n=st.sampled_from([2, 3]), takes_aux=st.sampled_from([True, True, False]),
              constant_aux=st.booleans(), aux_kind=st.sampled_from(["scalar", "same"]), aux_seed=st.integers(0, 10**6))  # fmt: skip
        def reused_function(self, which, n, takes_aux, constant_aux, aux_kind, aux_seed):
            self._do(dict(op=which, n=n, include_init=False, takes_aux=takes_aux, constant_aux=constant_aux, aux_kind=aux_kind, aux_seed=aux_seed, reuse=True))

        @rule(n=st.integers(0, 12), takes_aux=st.booleans(), constant_aux=st.booleans(), aux_kind=st.sampled_from(["scalar", "same"]), aux_seed=st.integers(0, 10**6))
        def repeat(self, n, takes_aux, constant_aux, aux_kind, aux_seed):
            self._do(dict(op="repeat", n=n, takes_aux=takes_aux, constant_aux=constant_aux, aux_kind=aux_kind, aux_seed=aux_seed))

        @rule(n=st.integers(0, 6), k=st.integers(0, 4), include_init=st.booleans())
        def rollout_of_repeat(self, n, k, include_init):
            self._do(dict(op="rollout_of_repeat", n=n, k=k, include_init=include_init))

        @precondition(lambda self: self.e.trj is not None)
        @rule(sub_len=st.integers(1, 15), mode=st.sampled_from(["valid", "valid", "valid", "ragged"]))
        def windows(self, sub_len, mode):
            T = leaves_np(self.e.trj)[0].shape[0]
            if mode == "valid" and T >= 1 and sub_len > T and sub_len % 3:
                sub_len = 1 + sub_len % T  # mostly valid lengths; every third too long one is kept
            self._do(dict(op="windows", sub_len=sub_len, mode=mode))

        def teardown(self):
            if self.history:
                case = dict(history=list(self.history))
                res = self.e.res
                res.nontrivial = bool(self.e.n_rollouts2 >= 1 and self.e.n_windows >= 1)
                ops = [o["op"] for o in self.history]
                res.tag("len=%d" % len(ops), *sorted(set(ops)))
                if any(o.get("n") == 0 for o in self.history):
                    res.tag("has_n=0")
                if any(o.get("takes_aux") and not o.get("constant_aux", True) for o in self.history):
                    res.tag("has_aux_sequence")
                if self.e.n_reused:
                    res.tag("has_reused_function")
                stats.record(case, res)
                for f in res.fails:
                    kf = is_known(prop, f, open_known)
                    if kf is not None:
                        stats.known[kf] += 1

    sett = settings(
        max_examples=n_machines,
        stateful_step_count=steps,
        database=None,
        deadline=None,
        derandomize=False,
        report_multiple_bugs=False,
        suppress_health_check=list(HealthCheck),
        phases=(Phase.generate, Phase.shrink),
        verbosity=Verbosity.quiet,
    )
    try:
        run_state_machine_as_test(hypothesis.seed(seed)(Machine), settings=sett)
    except Violation:
        stats.violations.append(dict(case=dict(history=best["hist"]), fails=best["fails"], shrunk=True))
    except hypothesis.errors.Flaky:
        if best["hist"] is not None:
            stats.violations.append(dict(case=dict(history=best["hist"]), fails=best["fails"], shrunk=False))
        else:
            raise


def m_strata(tier):
    k = 8 if tier == "quick" else 16
    return [dict(id="machines-%d" % i) for i in range(k)]


# ------------------------------------------------------------------ wrapper steppers

W_FAMILIES = [f for f in configs.ALL_FAMILIES if f.split("_")[0] not in ("KdV",)] + ["KdV_scad", "KdV_mnAD"]


def w_strata(tier):
    ns = {1: [8, 9], 2: [6, 7], 3: [5, 6]}
    out = []
    i = 0
    for f in W_FAMILIES:
        cls, dims = configs.family_info(f)
        for D in dims:
            i += 1
            if tier == "quick" and len(dims) == 3 and (i % 3) != 2:
                continue
            out.append(dict(id="%s-D%d" % (f, D), fam=f, D=D, N=ns[D][i % 2]))
    return out


def w_strategy(stratum, tier):
    f, D, N = stratum["fam"], stratum["D"], stratum["N"]
    return st.fixed_dictionaries(
        dict(
            fam=st.just(f),
            spec=configs.st_spec(f, D, N, orders=(0, 1, 2, 3, 4), dt=gens.log_floats(1e-3, 0.1)),
            seed=gens.st_seed(),
            n=st.sampled_from([3, 2, 1, 5, 8]),
        )
    )


def w_check(case):
    res = R()
    spec = case["spec"]
    D, N = spec["D"], spec["N"]
    key = "C14:RepeatedStepper:%s" % spec["cls"]
    C = model.num_channels(spec)
    n = case["n"]
    res.tag(case["fam"], "D%d" % D, "n=%d" % n)
    L, dt = reg.eff_L_dt(spec)
    kap = 2 * math.pi / L * orc.rfft_wavenumbers(D, N)
    odd = spec["cls"] != "Wave" and bool(np.max(np.abs(model.symbol(spec, kap).imag)) > 0)
    u = orc.white(case["seed"], (C,) + (N,) * D, 0.5)
    if (odd or spec["cls"] == "Wave") and N % 2 == 0:
        u = orc.remove_nyquist(u)
    ok, S = res.lib("construct", reg.build, spec, key=key)
    if not ok:
        return res
    ok, RS = res.lib("construct_repeated", ex.RepeatedStepper, S, n, key=key)
    if not ok:
        return res
    x = jnp.asarray(u)
    for _ in range(n):
        x = S(x)
    want = np.asarray(x)
    if not np.all(np.isfinite(want)) or np.max(np.abs(want)) > 1e3:
        res.tag("unstable_skipped")
        return res
    ok, got = res.lib("call", RS, jnp.asarray(u), key=key)
    sc = max(float(np.max(np.abs(want))), float(np.max(np.abs(u))))
    if ok:
        got = np.asarray(got)
        if res.true("repeated:shape", got.shape == want.shape, key=key):
            res.claim("repeated_equals_n_applications", float(np.max(np.abs(got - want))), 1e-10 * sc * n, key=key)
    res.claim("repeated:dt_is_n_dt", abs(float(RS.dt) - n * float(S.dt)), 1e-15 * abs(n * float(S.dt)), key=key + ":dt")
    uh = ex.fft(jnp.asarray(u))
    xh = uh
    for _ in range(n):
        xh = S.step_fourier(xh)
    ok, gh = res.lib("step_fourier", RS.step_fourier, uh, key=key)
    if ok:
        res.claim("repeated:step_fourier_is_n_fold", float(np.max(np.abs(np.asarray(gh) - np.asarray(xh)))), 1e-10 * (float(np.max(np.abs(np.asarray(xh)))) + float(np.max(np.abs(np.asarray(uh))))) * n, key=key + ":step_fourier")
    for attr in ("num_spatial_dims", "num_points", "num_channels"):
        res.true("repeated:attr:" + attr, getattr(RS, attr) == getattr(S, attr), key=key + ":attrs")
    # nesting: a repeated stepper is itself a stepper - RepeatedStepper(RepeatedStepper(S, n), m) = n*m applications with an
    # effective dt of n*m*dt
    m_ = 2 + case["seed"] % 2
    if n >= 1 and n * m_ <= 12:
        ok, RR = res.lib("construct_nested", lambda: ex.RepeatedStepper(ex.RepeatedStepper(S, n), m_), key=key + ":nested")
        if ok:
            res.claim("nested_repeated:dt_is_n_m_dt", abs(float(RR.dt) - n * m_ * float(S.dt)), 1e-14 * abs(n * m_ * float(S.dt)), key=key + ":nested:dt", msg="n=%d m=%d dt=%g" % (n, m_, float(RR.dt)))
            y = jnp.asarray(u)
            for _ in range(n * m_):
                y = S(y)
            y = np.asarray(y)
            if np.all(np.isfinite(y)) and np.max(np.abs(y)) <= 1e3:
                ok, gy = res.lib("call_nested", RR, jnp.asarray(u), key=key + ":nested")
                if ok:
                    res.claim("nested_repeated_equals_n_m_applications", float(np.max(np.abs(np.asarray(gy) - y))), 1e-10 * max(sc, float(np.max(np.abs(y)))) * n * m_, key=key + ":nested")
    res.nontrivial = bool(n >= 2 and np.max(np.abs(want - u)) > 1e-9 * sc)
    return res


# ------------------------------------------------------------------ build_ic_set

IC_GENS = ["tfs", "grf", "diffused", "white", "blobs", "discont", "sine1d", "multi"]


def ic_strata(tier):
    return [dict(id="%s-D%d" % (g, D), g=g, D=D) for g in IC_GENS for D in (1, 2, 3) if not (g == "sine1d" and D > 1) and not (tier == "quick" and D == 3 and g in ("blobs", "discont"))]


def ic_strategy(stratum, tier):
    return st.fixed_dictionaries(
        dict(g=st.just(stratum["g"]), D=st.just(stratum["D"]), N=st.sampled_from([8, 9, 12] if stratum["D"] < 3 else [5, 6]), S=st.integers(0, 5), key=st.integers(0, 2**31 - 1))
    )


def make_gen(g, D):
    I = ex.ic
    if g == "tfs":
        return I.RandomTruncatedFourierSeries(D, cutoff=3)
    if g == "grf":
        return I.GaussianRandomField(D)
    if g == "diffused":
        return I.DiffusedNoise(D)
    if g == "white":
        return I.WhiteNoise(D)
    if g == "blobs":
        return I.RandomGaussianBlobs(D)
    if g == "discont":
        return I.RandomDiscontinuities(D)
    if g == "sine1d":
        return I.RandomSineWaves1d(1)
    return I.RandomMultiChannelICGenerator([I.RandomTruncatedFourierSeries(D, cutoff=2), I.WhiteNoise(D)])


def ic_check(case):
    res = R()
    g, D, N, S = case["g"], case["D"], case["N"], case["S"]
    key = "C14:build_ic_set:%s" % g
    res.tag("build_ic_set", g, "D%d" % D, "S=%d" % S)
    gen = make_gen(g, D)
    k0 = jr.PRNGKey(case["key"])
    ok, got = res.lib("build_ic_set", lambda: ex.build_ic_set(gen, num_points=N, num_samples=S, key=k0), key=key)
    if not ok:
        return res
    got = np.asarray(got)
    k = k0
    want = []
    for _ in range(S):
        k, sub = jr.split(k)
        want.append(np.asarray(gen(N, key=sub)))
    Cn = 2 if g == "multi" else 1
    if not res.true("ic_set:shape", got.shape == (S, Cn) + (N,) * D, key=key, msg=str(got.shape)):
        return res
    if S:
        want = np.stack(want)
        res.claim("ic_set_equals_sequential_key_splitting_loop", float(np.max(np.abs(got - want))), 1e-12 * (float(np.max(np.abs(want))) + 1e-300), key=key)
        got2 = np.asarray(ex.build_ic_set(gen, num_points=N, num_samples=S, key=k0))
        res.claim("ic_set_deterministic_in_key", float(np.max(np.abs(got2 - got))), 0.0, key=key)
        if S >= 2:
            res.true("ic_set_members_differ", bool(np.max(np.abs(got[0] - got[1])) > 0), key=key)
    res.nontrivial = S >= 2
    return res


SUBS = [
    Sub("machine", check, strata=m_strata, runner=machine_runner, n=(12, 60)),
    Sub("repeated_stepper", w_check, strata=w_strata, strategy=w_strategy, n=(2, 8)),
    Sub("build_ic_set", ic_check, strata=ic_strata, strategy=ic_strategy, n=(3, 12)),
]
