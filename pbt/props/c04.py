"""C04 - grid, FFT and Fourier-coefficient conventions are mutually consistent."""

from __future__ import annotations

import itertools
import math

import numpy as np
from hypothesis import strategies as st

import exponax as ex
from pbt import gens, oracles as orc
from pbt.core import R, Sub

RULE = (
    "Finite part enumerated completely per (D, N, indexing): wavenumber/scaling arrays, "
    "low-pass masks for every cut-off, oddball mask, mode slices, grid and wrap_bc, each against "
    "a NumPy oracle written from the docstrings. Generated part: FFT round trips of white-noise "
    "states; for EVERY signed wavenumber vector of the grid (DC, Nyquist, negative on leading axes) "
    "a plane wave a*cos(2*pi*k.x/L+phi) sampled on ex.make_grid(indexing=idx) with drawn a, phi, L "
    "must appear in exactly the stored modes the wavenumber array names with the documented "
    "magnitude/phase under all three scalings; tensor-product cos/sin fields for coef_extraction; "
    "derivative w.r.t. the coordinate of the same indexing. Non-trivial: k != 0 (plane wave), "
    "N >= 4 (finite part), state not constant (round trip); distinct = distinct serialised case. Large-N sub-checks: every N <= 300 in 1D (arrays, masks at selected cut-offs) and selected 2D/3D sizes, exhaustive."
)
ASSUMPTIONS = [
    "float64 session (jax_enable_x64)",
    "numpy.fft is the trusted reference transform for round trips",
    "the 'xy' convention is the one of numpy.meshgrid: coordinate 0 varies along array axis 1",
]

IDX = ("ij", "xy")


def perm_axis(D, idx):
    """array axis along which coordinate c varies"""
    p = list(range(D))
    if idx == "xy" and D >= 2:
        p[0], p[1] = 1, 0
    return p


def exp_wavenumbers(D, N, idx):
    """expected build_wavenumbers: entry c = wavenumber of coordinate c, stored in the
    rfftn layout of the array (last array axis halved)"""
    w = orc.rfft_wavenumbers(D, N)
    p = perm_axis(D, idx)
    return np.stack([w[p[c]] for c in range(D)])


def exp_scaling(D, N, mode):
    den_last, den_other = {
        "norm_compensation": (1, 1),
        "reconstruction": (2, 1),
        "coef_extraction": (2, 2),
    }[mode]
    w = orc.rfft_wavenumbers(D, N)
    out = np.ones(w.shape[1:])
    for d in range(D):
        den = den_last if d == D - 1 else den_other
        k = w[d]
        special = (k == 0) | ((N % 2 == 0) & (np.abs(k) == N // 2))
        out = out * np.where(special, float(N), N / den)
    return out[None]


# --------------------------------------------------------------------------
# finite part


def dn_strata(tier):
    if tier == "quick":
        ns = {1: list(range(3, 17)), 2: list(range(3, 10)), 3: list(range(3, 8))}
    else:
        ns = {1: list(range(3, 41)), 2: list(range(3, 19)), 3: list(range(3, 13))}
    return [
        dict(id="D%d-N%d-%s" % (D, N, idx), D=D, N=N, idx=idx)
        for D in (1, 2, 3)
        for N in ns[D]
        for idx in IDX
    ]


def cases_single(stratum, tier):
    if "Ns" in stratum:
        for N in stratum["Ns"]:
            yield dict(D=stratum["D"], N=N, idx=stratum["idx"])
        return
    yield dict(D=stratum["D"], N=stratum["N"], idx=stratum["idx"])


def large_n_strata(tier):
    """every N up to 300 in 1D and a spread of larger N in 2D (both tiers): the wavenumber array must hold EXACT
    integers for every N, because the library compares it with == / <= (masks, forcing modes, dealiasing band);
    N * fl(1/N) != 1 for a sparse set of N (49, 98, 103, 107, 161, ...)"""
    out = []
    for lo in range(17, 301, 20):
        for idx in IDX if tier != "quick" else IDX[:1]:
            out.append(dict(id="D1-N%d..%d-%s" % (lo, min(lo + 19, 300), idx), D=1, Ns=list(range(lo, min(lo + 20, 301))), idx=idx))
    n2 = [21, 32, 49, 50, 64] if tier == "quick" else [21, 32, 49, 50, 64, 98, 103, 128]
    for N in n2:
        out.append(dict(id="D2-N%d-ij" % N, D=2, Ns=[N], idx="ij"))
    if tier != "quick":
        out.append(dict(id="D3-N49-ij", D=3, Ns=[49], idx="ij"))
    return out


def _shape_claim(res, cid, got, want_shape, key):
    ok = tuple(got.shape) == tuple(want_shape)
    res.true(cid + ":shape", ok, key=key, msg="shape %s != %s" % (got.shape, want_shape))
    return ok


def check_arrays(case):
    D, N, idx = case["D"], case["N"], case["idx"]
    res = R()
    res.nontrivial = N >= 4
    res.tag("D%d" % D, "N%s" % ("odd" if N % 2 else "even"), idx)
    key = "C04:%s:D%d" % (idx, D)
    L = 3.7
    want = exp_wavenumbers(D, N, idx)
    ok, got = res.lib("wavenumbers", ex.spectral.build_wavenumbers, D, N, indexing=idx, key=key)
    if ok and _shape_claim(res, "wavenumbers", got, want.shape, key):
        res.claim("wavenumbers", np.max(np.abs(np.asarray(got) - want)), 0.0, key=key)
    ok, got = res.lib(
        "scaled_wavenumbers", ex.spectral.build_scaled_wavenumbers, D, L, N, indexing=idx, key=key
    )
    if ok and _shape_claim(res, "scaled_wavenumbers", got, want.shape, key):
        res.claim(
            "scaled_wavenumbers",
            np.max(np.abs(np.asarray(got) - 2 * math.pi / L * want)),
            1e-14 * 2 * math.pi / L * N,
            key=key,
        )
    ok, got = res.lib(
        "derivative_operator", ex.spectral.build_derivative_operator, D, L, N, indexing=idx, key=key
    )
    if ok and _shape_claim(res, "derivative_operator", got, want.shape, key):
        res.claim(
            "derivative_operator",
            np.max(np.abs(np.asarray(got) - 1j * 2 * math.pi / L * want)),
            1e-14 * 2 * math.pi / L * N,
            key=key,
        )
    for mode in ("norm_compensation", "reconstruction", "coef_extraction"):
        wantS = exp_scaling(D, N, mode)
        ok, got = res.lib(
            "scaling:" + mode, ex.spectral.build_scaling_array, D, N, mode=mode, indexing=idx, key=key
        )
        if ok and _shape_claim(res, "scaling:" + mode, got, wantS.shape, key):
            res.claim(
                "scaling:" + mode,
                np.max(np.abs(np.asarray(got) - wantS)),
                1e-13 * N**D,
                key=key + ":" + mode,
            )
    if idx == "ij":
        res.true("wavenumber_shape", ex.spectral.wavenumber_shape(D, N) == (N,) * (D - 1) + (N // 2 + 1,))
        res.true("spatial_shape", ex.spectral.spatial_shape(D, N) == (N,) * D)
        res.true("space_indices", ex.spectral.space_indices(D) == tuple(range(-D, 0)))
    return res


def check_masks(case):
    D, N, idx = case["D"], case["N"], case["idx"]
    res = R()
    res.nontrivial = N >= 4
    res.tag("D%d" % D, idx)
    key = "C04:%s:D%d" % (idx, D)
    w = orc.rfft_wavenumbers(D, N)  # masks are symmetric under the axis swap of 'xy'
    shape = (1,) + w.shape[1:]
    cutoffs = range(0, N // 2 + 2) if N <= 40 else sorted({0, 1, 2, 3, N // 4, N // 3, (2 * (N // 2)) // 3 - 1, (2 * (N // 2)) // 3, N // 2 - 1, N // 2, N // 2 + 1})
    for cutoff in cutoffs:
        for sep in (True, False):
            if sep:
                want = np.all(np.abs(w) <= cutoff, axis=0)[None]
            else:
                # |k|_2 <= c  decided in exact integer arithmetic
                want = ((w**2).sum(0) <= cutoff**2)[None]
            ok, got = res.lib(
                "low_pass",
                ex.spectral.low_pass_filter_mask,
                D,
                N,
                cutoff=cutoff,
                axis_separate=sep,
                indexing=idx,
                key=key,
            )
            if not ok:
                continue
            got = np.asarray(got)
            if not res.true(
                "low_pass:shape", got.shape == shape, key=key, msg="%s vs %s" % (got.shape, shape)
            ):
                continue
            res.true("low_pass:dtype", got.dtype == bool, key=key)
            nbad = int(np.sum(got != want))
            res.claim(
                "low_pass:sep" if sep else "low_pass:sphere",
                nbad,
                0,
                key=key + (":sep" if sep else ":sphere"),
                msg="cutoff=%d: %d entries differ" % (cutoff, nbad),
            )
    if idx == "ij":
        want = np.ones(shape, dtype=bool)
        if N % 2 == 0:
            want = np.all(np.abs(w) < N // 2, axis=0)[None]
        got = np.asarray(ex.spectral.oddball_filter_mask(D, N))
        if res.true("oddball:shape", got.shape == shape, msg=str(got.shape)):
            res.claim("oddball", int(np.sum(got != want)), 0)
            res.true("oddball:dtype", got.dtype == bool)
    return res


def check_slices(case):
    D, N = case["D"], case["N"]
    res = R()
    res.nontrivial = N >= 4
    res.tag("D%d" % D, "N%s" % ("odd" if N % 2 else "even"))
    sl = ex.spectral.get_modes_slices(D, N)
    res.true("slices:count", len(sl) == 2 ** (D - 1), msg=str(len(sl)))
    w = orc.rfft_wavenumbers(D, N)
    shape = (1,) + w.shape[1:]
    cover = np.zeros(shape, dtype=int)
    patterns = []
    for block in sl:
        if not res.true("slices:len", len(block) == D + 1, msg=str(block)):
            return res
        res.true("slices:channel", block[0] == slice(None), msg=str(block))
        m = np.zeros(shape, dtype=int)
        m[block] = 1
        cover += m
        # sign pattern of the leading axes
        pat = []
        for d in range(D - 1):
            ks = w[d][block[1:]]
            if ks.size == 0:
                pat.append("e")
            elif np.all(ks >= 0):
                pat.append("+")
            elif np.all(ks < 0):
                pat.append("-")
            else:
                pat.append("mixed")
        patterns.append(tuple(pat))
        # the halved axis is taken completely
        res.true(
            "slices:last_axis_complete",
            m.shape[-1] == N // 2 + 1 and np.all(m.sum(axis=-1)[m.sum(axis=-1) > 0] == N // 2 + 1),
        )
    res.claim("slices:disjoint", int(np.sum(cover > 1)), 0)
    res.claim("slices:cover", int(np.sum(cover < 1)), 0)
    want_patterns = set(itertools.product("+-", repeat=D - 1))
    res.true(
        "slices:sign_patterns",
        set(patterns) == want_patterns and len(patterns) == len(want_patterns),
        msg=str(patterns),
    )
    if D == 2:
        res.true("slices:order2d", patterns == [("+",), ("-",)], msg=str(patterns))
    if D == 1:
        res.true("slices:doc1d", sl == ((slice(None), slice(None, N // 2 + 1)),), msg=str(sl))
    if D == 2 and N == 10:
        res.true(
            "slices:doc2d",
            sl
            == (
                (slice(None), slice(None, 5), slice(None, 6)),
                (slice(None), slice(-5, None), slice(None, 6)),
            ),
            msg=str(sl),
        )
    return res


def strat_grid(stratum, tier):
    return st.fixed_dictionaries(
        dict(
            D=st.just(stratum["D"]),
            N=st.just(stratum["N"]),
            idx=st.just(stratum["idx"]),
            L=gens.st_L(extreme=True),
            seed=gens.st_seed(),
            C=st.integers(1, 3),
        )
    )


def check_grid(case):
    D, N, idx, L = case["D"], case["N"], case["idx"], case["L"]
    res = R()
    res.nontrivial = True
    res.tag("D%d" % D, idx)
    key = "C04:%s:D%d:grid" % (idx, D)
    p = perm_axis(D, idx)
    own = orc.own_grid(D, N, L)
    want = np.stack([own[p[c]] for c in range(D)])
    tol = 1e-13 * L
    g = np.asarray(ex.make_grid(D, L, N, indexing=idx))
    if res.true("grid:shape", g.shape == (D,) + (N,) * D, key=key, msg=str(g.shape)):
        res.claim("grid:values", np.max(np.abs(g - want)), tol, key=key)
        res.claim("grid:first", np.max(np.abs(g[(slice(None),) + (0,) * D])), 0.0, key=key)
        res.claim(
            "grid:last", np.max(np.abs(g[(slice(None),) + (-1,) * D] - (L - L / N))), tol, key=key
        )
    gz = np.asarray(ex.make_grid(D, L, N, zero_centered=True, indexing=idx))
    if res.true("grid:zc:shape", gz.shape == (D,) + (N,) * D, key=key):
        res.claim("grid:zero_centered", np.max(np.abs(gz - (want - L / 2))), tol, key=key)
    gf = np.asarray(ex.make_grid(D, L, N, full=True, indexing=idx))
    if res.true("grid:full:shape", gf.shape == (D,) + (N + 1,) * D, key=key, msg=str(gf.shape)):
        x1 = np.arange(N + 1) * (L / N)
        for c in range(D):
            sh = [1] * D
            sh[p[c]] = N + 1
            res.claim(
                "grid:full",
                np.max(np.abs(gf[c] - np.broadcast_to(x1.reshape(sh), (N + 1,) * D))),
                tol,
                key=key,
            )
    # wrap_bc: periodic extension by one point along every spatial axis
    C = case["C"]
    u = orc.white(case["seed"], (C,) + (N,) * D)
    uw = np.asarray(ex.wrap_bc(u))
    if res.true("wrap_bc:shape", uw.shape == (C,) + (N + 1,) * D, msg=str(uw.shape)):
        idxs = np.ix_(range(C), *[[i % N for i in range(N + 1)]] * D)
        res.claim("wrap_bc", np.max(np.abs(uw - u[idxs])), 0.0)
    return res


def strat_grid_any_n(stratum, tier):
    return st.fixed_dictionaries(
        dict(
            D=st.just(stratum["D"]),
            N=st.integers(3, 400 if stratum["D"] == 1 else (40 if stratum["D"] == 2 else 12)),
            idx=st.sampled_from(IDX),
            L=st.one_of(st.sampled_from([1.0, 3.0, 10.0, 2 * math.pi, 0.1, 100.0]), gens.st_L(extreme=True)),
            full=st.booleans(),
            zero_centered=st.booleans(),
        )
    )


def check_grid_any_n(case):
    """left-inclusive / right-exclusive grid with exactly N points of spacing L/N for EVERY (L, N) pair"""
    D, N, idx, L = case["D"], case["N"], case["idx"], case["L"]
    res = R()
    res.nontrivial = True
    res.tag("grid_any_n", "D%d" % D, "N>40" if N > 40 else "N<=40")
    key = "C04:%s:D%d:grid" % (idx, D)
    ok, g = res.lib("make_grid", ex.make_grid, D, L, N, full=case["full"], zero_centered=case["zero_centered"], indexing=idx, key=key)
    if not ok:
        return res
    g = np.asarray(g)
    M_ = N + 1 if case["full"] else N
    if not res.true("grid:shape", g.shape == (D,) + (M_,) * D, key=key, msg="%s for N=%d L=%r full=%s" % (g.shape, N, L, case["full"])):
        return res
    p = perm_axis(D, idx)
    x1 = np.arange(M_) * (L / N) - (L / 2 if case["zero_centered"] else 0.0)
    for c in range(D):
        sh = [1] * D
        sh[p[c]] = M_
        res.claim("grid:values", float(np.max(np.abs(g[c] - np.broadcast_to(x1.reshape(sh), (M_,) * D)))), 1e-13 * L, key=key)
    return res


# --------------------------------------------------------------------------
# generated part


def gen_strata(tier):
    if tier == "quick":
        ns = {1: [3, 4, 7, 8, 15, 16], 2: [3, 4, 5, 6, 8, 9], 3: [3, 4, 5, 6]}
    else:
        ns = {1: list(range(3, 41)), 2: list(range(3, 19)), 3: list(range(3, 13))}
    return [dict(id="D%d-N%d" % (D, N), D=D, N=N) for D in (1, 2, 3) for N in ns[D]]


def strat_roundtrip(stratum, tier):
    return st.fixed_dictionaries(
        dict(
            D=st.just(stratum["D"]),
            N=st.just(stratum["N"]),
            C=st.integers(1, 3),
            state=gens.st_white(0.01, 100.0),
        )
    )


def check_roundtrip(case):
    D, N, C = case["D"], case["N"], case["C"]
    res = R()
    u = orc.make_state(case["state"], C, D, N)
    res.nontrivial = np.ptp(u) > 0
    res.tag("D%d" % D, "N%s" % ("odd" if N % 2 else "even"), "C%d" % C)
    scale = np.max(np.abs(u))
    uh = np.asarray(ex.fft(u))
    want = orc.rfftn(u)
    if res.true("fft:shape", uh.shape == want.shape, msg=str(uh.shape)):
        res.claim("fft:vs_numpy", np.max(np.abs(uh - want)), 1e-12 * scale * N**D)
    uh2 = np.asarray(ex.fft(u, num_spatial_dims=D))
    res.claim("fft:explicit_dims", np.max(np.abs(uh2 - uh)), 0.0)
    back = np.asarray(ex.ifft(uh, num_spatial_dims=D, num_points=N))
    if res.true("ifft:shape", back.shape == u.shape, msg=str(back.shape)):
        res.claim("roundtrip", np.max(np.abs(back - u)), 1e-13 * scale * (1 + math.log2(N) * D))
        res.true("roundtrip:real", not np.iscomplexobj(back))
    if D >= 2:
        back2 = np.asarray(ex.ifft(uh))
        if res.true("ifft:inferred:shape", back2.shape == u.shape, msg=str(back2.shape)):
            res.claim("roundtrip:inferred", np.max(np.abs(back2 - u)), 1e-13 * scale * (1 + math.log2(N) * D))
    else:
        try:
            ex.ifft(uh)
            res.true("ifft:1d_needs_num_points", False, msg="no ValueError")
        except ValueError:
            res.true("ifft:1d_needs_num_points", True)
    return res


def all_k(D, N):
    """every signed wavenumber vector of the grid, Nyquist included (both signs collapse)"""
    lo = -(N // 2) if N % 2 == 0 else -((N - 1) // 2)
    hi = (N - 1) // 2
    return itertools.product(range(lo, hi + 1), repeat=D)


def pw_strata(tier):
    if tier == "quick":
        ns = {1: [3, 4, 7, 8, 11, 12], 2: [3, 4, 5, 6], 3: [3, 4, 5]}
    else:
        ns = {1: list(range(3, 25)), 2: list(range(3, 13)), 3: list(range(3, 9))}
    out = []
    for D in (1, 2, 3):
        for N in ns[D]:
            for idx in IDX:
                ks = list(all_k(D, N))
                # chunk the mode list so that work units stay small
                chunk = 64
                for i in range(0, len(ks), chunk):
                    out.append(
                        dict(
                            id="D%d-N%d-%s-%d" % (D, N, idx, i // chunk),
                            D=D,
                            N=N,
                            idx=idx,
                            lo=i,
                            hi=min(len(ks), i + chunk),
                        )
                    )
    return out


def frames_planewave(stratum, tier):
    return [list(k) for k in list(all_k(stratum["D"], stratum["N"]))[stratum["lo"] : stratum["hi"]]]


def strat_planewave(stratum, tier, k):
    D, N = stratum["D"], stratum["N"]
    return st.fixed_dictionaries(
        dict(
            D=st.just(D),
            N=st.just(N),
            idx=st.just(stratum["idx"]),
            k=st.just(list(k)),
            a=gens.nonzero_coef(0.1, 3.0),
            phi=st.one_of(
                st.sampled_from([0.0, math.pi / 2, math.pi, 0.3]),
                st.floats(0, 2 * math.pi).map(lambda x: float("%.4g" % x)),
            ),
            L=gens.st_L(extreme=True),
        )
    )


def pw_count(stratum):
    return stratum["hi"] - stratum["lo"]


def check_planewave(case):
    D, N, idx, k, a, phi, L = (case[x] for x in ("D", "N", "idx", "k", "a", "phi", "L"))
    res = R()
    res.nontrivial = any(k)
    nyq = N % 2 == 0 and any(abs(x) == N // 2 for x in k)
    res.tag("D%d" % D, idx, "nyquist" if nyq else ("dc" if not any(k) else "interior"))
    if D >= 2 and any(x < 0 for x in k[:-1]):
        res.tag("negative_leading")
    key = "C04:%s:D%d" % (idx, D)
    p = perm_axis(D, idx)
    ok, g = res.lib("grid", ex.make_grid, D, L, N, indexing=idx, key=key)
    if not ok:
        return res
    g = np.asarray(g)
    # sample the plane wave on the library's grid with my own evaluator
    theta = phi
    for c in range(D):
        theta = theta + 2 * math.pi * k[c] / L * g[c]
    u = (a * np.cos(theta))[None]
    ok, uh = res.lib("fft", ex.fft, u, key=key)
    if not ok:
        return res
    uh = np.asarray(uh)
    # expected spectrum in the array-axis layout: coordinate c lives on array axis p[c]
    k_axis = [0] * D
    for c in range(D):
        k_axis[p[c]] = k[c]
    exp = np.zeros((1,) + (N,) * (D - 1) + (N // 2 + 1,), dtype=complex)
    support = orc.plane_wave_rfft(k_axis, a, phi, D, N)
    for ix, v in support.items():
        exp[(0,) + ix] += v
    tol = 1e-12 * N**D * abs(a)
    if not res.true("planewave:fft_shape", uh.shape == exp.shape, key=key, msg=str(uh.shape)):
        return res
    res.claim("planewave:spectrum", np.max(np.abs(uh - exp)), tol, key=key)
    # the wavenumber array must name +-k at the support
    ok, wn = res.lib("wavenumbers", ex.spectral.build_wavenumbers, D, N, indexing=idx, key=key)
    if ok:
        wn = np.asarray(wn)
        if res.true("planewave:wn_shape", wn.shape[1:] == uh.shape[1:], key=key, msg=str(wn.shape)):
            for ix in support:
                named = [float(wn[(c,) + ix]) for c in range(D)]

                def same(named, kk):
                    for c in range(D):
                        x, y = named[c], kk[c]
                        if x == y:
                            continue
                        if N % 2 == 0 and abs(x) == N // 2 and abs(y) == N // 2:
                            continue  # Nyquist: +N/2 and -N/2 are the same mode
                        return False
                    return True

                res.true(
                    "planewave:wavenumber_names_mode",
                    same(named, k) or same(named, [-x for x in k]),
                    key=key,
                    msg="index %s named %s for k=%s" % (ix, named, k),
                )
    # scalings
    for mode in ("norm_compensation", "reconstruction", "coef_extraction"):
        ok, S = res.lib(
            "scaling", ex.spectral.build_scaling_array, D, N, mode=mode, indexing=idx, key=key
        )
        if not ok:
            continue
        S = np.asarray(S)
        if not res.true("planewave:scaling_shape", S.shape == uh.shape, key=key, msg=str(S.shape)):
            continue
        c_ = uh / S
        if mode == "norm_compensation":
            # full complex Fourier-series coefficient (rfftn with norm="forward")
            res.claim("planewave:norm_compensation", np.max(np.abs(c_ - exp / N**D)), 1e-12 * abs(a), key=key)
        elif mode == "reconstruction":
            # Re sum over stored modes c e^{i kappa.x} reproduces the field (own sum)
            w_axis = orc.rfft_wavenumbers(D, N)
            own = orc.own_grid(D, N, L)
            rec = np.zeros((N,) * D)
            nz = np.argwhere(np.abs(c_[0]) > 1e-14 * abs(a))
            for ix in nz:
                ix = tuple(ix)
                ph = 0
                for d in range(D):
                    ph = ph + 2 * math.pi * w_axis[(d,) + ix] / L * own[d]
                rec = rec + (c_[(0,) + ix] * np.exp(1j * ph)).real
            # field on my own array-axis grid
            th = phi
            for d in range(D):
                th = th + 2 * math.pi * k_axis[d] / L * own[d]
            res.claim(
                "planewave:reconstruction",
                np.max(np.abs(rec - a * np.cos(th))),
                1e-11 * abs(a),
                key=key,
            )
        else:
            ok, gc = res.lib(
                "get_fourier_coefficients",
                ex.spectral.get_fourier_coefficients,
                u,
                scaling_compensation_mode=mode,
                round=None,
                indexing=idx,
                key=key,
            )
            if ok:
                res.claim(
                    "get_fourier_coefficients:equals_fft_over_scaling",
                    np.max(np.abs(np.asarray(gc) - c_)),
                    1e-13 * abs(a) * 4,
                    key=key,
                )
    return res


def strat_coef(stratum, tier):
    D, N = stratum["D"], stratum["N"]
    return st.fixed_dictionaries(
        dict(
            D=st.just(D),
            N=st.just(N),
            idx=st.sampled_from(IDX),
            k=st.lists(st.integers(0, N // 2), min_size=D, max_size=D),
            trig=st.lists(st.sampled_from(["cos", "sin"]), min_size=D, max_size=D),
            A=gens.nonzero_coef(0.1, 3.0),
            L=gens.st_L(extreme=True),
            rnd=st.sampled_from([None, 0, 5, 3, 0, 1]),
        )
    )


def check_coef_extraction(case):
    """tensor-product fields A prod_d t_d(k_d x_d): the coef_extraction scaling lets one read
    the amplitude at index (k_1..k_D) with the sign convention of the interpretation guide"""
    D, N, idx, k, trig, A, L = (case[x] for x in ("D", "N", "idx", "k", "trig", "A", "L"))
    res = R()
    key = "C04:%s:D%d" % (idx, D)
    # sine of the DC or Nyquist mode vanishes on the grid: use cosine there
    trig = [
        "cos" if (k[c] == 0 or (N % 2 == 0 and k[c] == N // 2)) else trig[c] for c in range(D)
    ]
    res.nontrivial = any(k)
    res.tag("D%d" % D, idx)
    p = perm_axis(D, idx)
    ok, g = res.lib("grid", ex.make_grid, D, L, N, indexing=idx, key=key)
    if not ok:
        return res
    g = np.asarray(g)
    u = A * np.ones((N,) * D)
    want = A
    for c in range(D):
        arg = 2 * math.pi * k[c] / L * g[c]
        u = u * (np.cos(arg) if trig[c] == "cos" else np.sin(arg))
        if trig[c] == "sin":
            want = want * (-1j)
    ix = [0] * D
    for c in range(D):
        ix[p[c]] = k[c]
    co_exact = None
    for rnd in (None, case["rnd"]):
        ok, co = res.lib(
            "get_fourier_coefficients",
            ex.spectral.get_fourier_coefficients,
            u[None],
            scaling_compensation_mode="coef_extraction",
            round=rnd,
            indexing=idx,
            key=key,
        )
        if not ok:
            continue
        co = np.asarray(co)
        if not res.true(
            "coef_extraction:shape",
            co.shape == (1,) + (N,) * (D - 1) + (N // 2 + 1,),
            key=key,
            msg=str(co.shape),
        ):
            continue
        tol = 1e-12 * abs(A) if rnd is None else 0.5000001 * 10.0 ** (-rnd) * math.sqrt(2)
        if rnd is None:
            co_exact = co
        elif co_exact is not None:
            # `round=r` returns the coefficients rounded to r decimals - also for r = 0 (whole numbers)
            wr = np.round(co_exact.real, rnd) + 1j * np.round(co_exact.imag, rnd)
            close_to_tie = np.abs(np.abs(co_exact.real * 10.0**rnd % 1.0) - 0.5) < 1e-6
            close_to_tie |= np.abs(np.abs(co_exact.imag * 10.0**rnd % 1.0) - 0.5) < 1e-6
            res.claim("coef_extraction:is_rounded_to_requested_decimals", float(np.max(np.where(close_to_tie, 0.0, np.abs(co - wr)))), 1e-9 * (1 + abs(A)), key=key + ":round", msg="round=%s" % rnd)
        res.claim(
            "coef_extraction:amplitude" + ("" if rnd is None else ":rounded"),
            abs(co[(0,) + tuple(ix)] - want),
            tol,
            key=key,
            msg="k=%s trig=%s got %s want %s" % (k, trig, co[(0,) + tuple(ix)], want),
        )
        if rnd is not None:
            # rounding to `rnd` decimals
            res.claim(
                "coef_extraction:round",
                np.max(np.abs(co * 10**rnd - np.round(co * 10**rnd))),
                1e-6,
                key=key,
            )
    return res


def strat_deriv(stratum, tier):
    D, N = stratum["D"], stratum["N"]
    kmax = (N - 1) // 2
    return st.fixed_dictionaries(
        dict(
            D=st.just(D),
            N=st.just(N),
            idx=st.sampled_from(IDX),
            modes=gens.st_modes(D, kmax, 1, 4),
            L=gens.st_L(extreme=True),
            order=st.integers(1, 3),
        )
    )


def check_derivative_indexing(case):
    """ex.derivative(u, L, indexing=idx)[d] is the derivative w.r.t. the coordinate
    ex.make_grid(indexing=idx)[d]"""
    D, N, idx, modes, L, order = (case[x] for x in ("D", "N", "idx", "modes", "L", "order"))
    res = R()
    key = "C04:%s:D%d" % (idx, D)
    res.tag("D%d" % D, idx)
    res.nontrivial = any(any(m[0]) for m in modes)
    ok, g = res.lib("grid", ex.make_grid, D, L, N, indexing=idx, key=key)
    if not ok:
        return res
    g = np.asarray(g)
    u = orc.eval_trig(modes, g, L)[None]
    ok, du = res.lib("derivative", ex.derivative, u, L, order=order, indexing=idx, key=key)
    if not ok:
        return res
    du = np.asarray(du)
    if not res.true("derivative:shape", du.shape == (D,) + (N,) * D, key=key, msg=str(du.shape)):
        return res
    amp = sum(abs(m[1]) for m in modes) + 1e-300
    tol = 1e-11 * amp * (math.pi * N / L) ** order
    for c in range(D):
        dv = [0] * D
        dv[c] = order
        want = orc.eval_trig(modes, g, L, deriv=dv)
        res.claim("derivative:indexing", np.max(np.abs(du[c] - want)), tol, key=key)
    return res


SUBS = [
    Sub("arrays", check_arrays, strata=dn_strata, cases=cases_single, exhaustive=True),
    Sub("masks", check_masks, strata=dn_strata, cases=cases_single, exhaustive=True),
    Sub("arrays_large_n", check_arrays, strata=large_n_strata, cases=cases_single, exhaustive=True),
    Sub("masks_large_n", check_masks, strata=large_n_strata, cases=cases_single, exhaustive=True),
    Sub(
        "mode_slices",
        check_slices,
        strata=lambda tier: [s for s in dn_strata(tier) if s["idx"] == "ij"],
        cases=cases_single,
        exhaustive=True,
    ),
    Sub("grid", check_grid, strata=dn_strata, strategy=strat_grid, n=(2, 6)),
    Sub("grid_any_n", check_grid_any_n, strata=lambda tier: [dict(id="D%d-%d" % (D, i), D=D) for i, D in enumerate((1, 1, 1, 2, 3))], strategy=strat_grid_any_n, n=(150, 1500)),
    Sub("roundtrip", check_roundtrip, strata=gen_strata, strategy=strat_roundtrip, n=(6, 25)),
    Sub(
        "planewave",
        check_planewave,
        strata=pw_strata,
        strategy=strat_planewave,
        frames=frames_planewave,
        n=(2, 5),
    ),
    Sub("coef_extraction", check_coef_extraction, strata=gen_strata, strategy=strat_coef, n=(12, 40)),
    Sub("derivative_indexing", check_derivative_indexing, strata=gen_strata, strategy=strat_deriv, n=(8, 30)),
]
