"""C16 - error metrics are consistent quadratures of the documented norms."""

from __future__ import annotations

import math

import numpy as np
from hypothesis import strategies as st

import jax.numpy as jnp

import exponax as ex
from pbt import gens, oracles as orc
from pbt.core import R, Sub

M = ex.metrics

RULE = (
    "Strata (D, N) odd/even. Hypothesis draws pairs (u, v) of O(1) amplitude: white noise (Nyquist content "
    "included), Nyquist-free white noise, or trigonometric polynomials (1-4 modes per channel), C in 1..3, "
    "L, band limits, scale factors. Claims: Parseval (fourier_X = X), closed-form integrals L^D sum|c_k|^2 "
    "from the generated coefficients (also per band and for the gradient), L-scaling, resolution "
    "independence of the p=2 metrics for band-limited pairs sampled at N1 != N2, additivity over channels "
    "and over a full partition into bands, metric axioms (zero, positivity, symmetry, homogeneity, scale "
    "invariance), Sobolev decomposition, correlation bounds, mean_metric. Non-trivial: u != v in every "
    "channel and both non-constant; distinct = distinct serialised case."
)
ASSUMPTIONS = [
    "float64 session",
    "pairs with a Fourier coefficient of the difference within a factor 4 of the documented absolute 1e-5 floor are tagged and their Parseval/closed-form claims skipped (counted in the histogram)",
    "Sobolev decomposition asserted on odd N or Nyquist-free pairs only (on even N the inverse real FFT drops the differentiated Nyquist mode)",
]

SPATIAL_ABS = {"MAE": (1.0, 1.0), "MSE": (2.0, 1.0), "RMSE": (2.0, 0.5)}


def strata(tier):
    if tier == "quick":
        ns = {1: [7, 12], 2: [5, 8], 3: [4, 5]}
    else:
        ns = {1: [3, 4, 9, 16, 31, 40], 2: [3, 4, 7, 12, 15], 3: [3, 4, 5, 8, 9]}
    return [dict(id="D%d-N%d" % (D, N), D=D, N=N) for D in (1, 2, 3) for N in ns[D]] + [dict(id="D%d-anyN" % D, D=D, N="any", n_max={1: 200, 2: 32, 3: 12}[D]) for D in (1, 2, 3)]


def st_state(C, D, N):
    kmax = max(0, (N - 1) // 2)
    return st.one_of(
        gens.st_white(0.3, 3.0),
        gens.st_white(0.3, 3.0, kind="nyqfree"),
        gens.st_trig(C, D, kmax, 1, 4),
    )


def strategy(stratum, tier):
    D, N = stratum["D"], stratum["N"]
    return st.integers(1, 3).flatmap(
        lambda C: st.fixed_dictionaries(
            dict(
                D=st.just(D),
                N=st.just(N),
                C=st.just(C),
                L=gens.st_L(0.2, 50.0),
                u=st_state(C, D, N),
                v=st_state(C, D, N),
                mean_u=st.one_of(st.just(0.0), gens.nonzero_coef(0.05, 1.0)),
                mean_v=st.one_of(st.just(0.0), gens.nonzero_coef(0.05, 1.0)),
                alpha=gens.nonzero_coef(0.2, 5.0),
                cuts=st.lists(st.integers(0, N // 2), min_size=0, max_size=3),
                band=st.tuples(st.integers(0, N // 2 + 1), st.integers(0, N // 2 + 1)),
            )
        )
    )


def coef_dict(modes):
    """Fourier-series coefficients {k tuple: complex} of sum a cos(kappa.x + phi)"""
    c = {}
    for k, a, phi in modes:
        kp = tuple(int(x) for x in k)
        km = tuple(-int(x) for x in k)
        c[kp] = c.get(kp, 0) + a / 2 * complex(math.cos(phi), math.sin(phi))
        c[km] = c.get(km, 0) + a / 2 * complex(math.cos(phi), -math.sin(phi))
    return c


def agg(x, L, p, q):
    N = x.shape[-1]
    D = x.ndim
    return ((L / N) ** D * np.sum(np.abs(x) ** p)) ** q


def near_floor(d):
    """True if some Fourier coefficient of d is neither clearly above the documented absolute
    1e-5 floor nor pure rounding noise (so that zeroing it is not a no-op up to rounding)"""
    U = np.abs(orc.rfftn(d))
    noise = 1e-12 * d.size * (np.max(np.abs(d)) + 1e-300)
    return bool(np.any((U > noise) & (U < 4e-5)))


def np_grad(u, L):
    """spectral gradient of a real field (C, N..N) -> (C, D, N..N), numpy only, via the half
    spectrum exactly as a real inverse transform of the differentiated field is defined"""
    D = u.ndim - 1
    N = u.shape[-1]
    U = orc.rfftn(u)
    kap = 2 * math.pi / L * orc.rfft_wavenumbers(D, N)
    return np.stack([orc.irfftn(1j * kap[d] * U, N) for d in range(D)], axis=1)


def check(case):
    D, N, C, L = (case[k] for k in ("D", "N", "C", "L"))
    res = R()
    u = orc.make_state(case["u"], C, D, N, L) + case["mean_u"]
    v = orc.make_state(case["v"], C, D, N, L) + case["mean_v"]
    d = u - v
    ax = orc.spatial_axes(D)
    res.nontrivial = bool(np.all(np.max(np.abs(d), axis=ax) > 1e-3) and np.all(np.ptp(u.reshape(C, -1), axis=1) > 0) and np.all(np.ptp(v.reshape(C, -1), axis=1) > 0))
    res.tag("D%d" % D, "C%d" % C, "N%s" % ("odd" if N % 2 else "even"), "u:" + case["u"]["kind"], "v:" + case["v"]["kind"])
    ju, jv = jnp.asarray(u), jnp.asarray(v)
    key = "C16:D%d" % D
    rms = lambda x: np.sqrt(np.mean(x.reshape(x.shape[0], -1) ** 2, axis=1))  # noqa: E731
    if not (np.all(rms(u) > 1e-2) and np.all(rms(v) > 1e-2)):
        # outside the property's domain (O(1) amplitude in every channel): normalised variants
        # would divide by ~0
        res.tag("degenerate_channel_skipped")
        res.nontrivial = False
        return res
    gref_ok = bool(np.all(rms(np_grad(v, L).reshape(C, -1)) > 1e-3 * 2 * math.pi / L))
    floor_risk = near_floor(d) or near_floor(v) or near_floor(u)
    if floor_risk:
        res.tag("near_1e-5_floor")
    rel = 1e-11

    def val(name, *a, **kw):
        ok, x = res.lib(name, getattr(M, name), *a, key=key + ":" + name, **kw)
        return float(x) if ok else None

    def close(cid, got, want, scale=None, k=None, tol=rel):
        if got is None or want is None:
            return
        s = abs(want) if scale is None else scale
        res.claim(cid, abs(got - want), tol * max(s, 1e-300) + 1e-300, key=k or (key + ":" + cid))

    # ---- formula-level values of the spatial metrics (documented definition)
    sp = {}
    for name, (p, q) in SPATIAL_ABS.items():
        dn = [agg(d[c], L, p, q) for c in range(C)]
        un = [agg(u[c], L, p, q) for c in range(C)]
        vn = [agg(v[c], L, p, q) for c in range(C)]
        sp[name] = sum(dn)
        sp["n" + name] = sum(dn[c] / vn[c] for c in range(C))
        sp["s" + name] = sum(2 * dn[c] / (un[c] + vn[c]) for c in range(C))
        sp[name + ":single"] = sum(un)
    got = {}
    for name in ("MAE", "MSE", "RMSE", "nMAE", "nMSE", "nRMSE", "sMAE", "sMSE", "sRMSE"):
        got[name] = val(name, ju, jv, domain_extent=L)
        close("definition:" + name, got[name], sp[name], k=key + ":definition:" + name)
    for name in ("MAE", "MSE", "RMSE"):
        close("definition:%s:no_reference" % name, val(name, ju, domain_extent=L), sp[name + ":single"], k=key + ":definition:" + name)

    # ---- 1. Parseval
    fgot = {}
    for name in ("MSE", "nMSE", "RMSE", "nRMSE"):
        fgot[name] = val("fourier_" + name, ju, jv, domain_extent=L)
        if not floor_risk:
            close("parseval:" + name, fgot[name], got[name], k=key + ":parseval")
    fgot["MAE"] = val("fourier_MAE", ju, jv, domain_extent=L)
    fgot["nMAE"] = val("fourier_nMAE", ju, jv, domain_extent=L)

    # ---- 2. closed forms for trigonometric pairs
    both_trig = case["u"]["kind"] == "trig" and case["v"]["kind"] == "trig"
    if both_trig:
        mse_c, ref_c, grad_c, gref_c = [], [], [], []
        band = sorted(case["band"])
        band_c = []
        for c in range(C):
            cu = coef_dict(case["u"]["modes"][c] + [[[0] * D, case["mean_u"], 0.0]])
            cv = coef_dict(case["v"]["modes"][c] + [[[0] * D, case["mean_v"], 0.0]])
            cd = dict(cu)
            for k_, x in cv.items():
                cd[k_] = cd.get(k_, 0) - x
            mse_c.append(L**D * sum(abs(x) ** 2 for x in cd.values()))
            ref_c.append(L**D * sum(abs(x) ** 2 for x in cv.values()))
            grad_c.append([L**D * sum((2 * math.pi * k_[dd] / L) ** 2 * abs(x) ** 2 for k_, x in cd.items()) for dd in range(D)])
            gref_c.append([L**D * sum((2 * math.pi * k_[dd] / L) ** 2 * abs(x) ** 2 for k_, x in cv.items()) for dd in range(D)])
            band_c.append(L**D * sum(abs(x) ** 2 for k_, x in cd.items() if band[0] <= max(abs(t) for t in k_) <= band[1]))
        sc = sum(mse_c) + 1e-300
        close("closed_form:MSE", got["MSE"], sum(mse_c), scale=sc + sum(ref_c))
        close("closed_form:RMSE", got["RMSE"], sum(math.sqrt(x) for x in mse_c), scale=math.sqrt(sc + sum(ref_c)))
        close("closed_form:nMSE", got["nMSE"], sum(mse_c[c] / ref_c[c] for c in range(C)), scale=sum((mse_c[c] + ref_c[c]) / ref_c[c] for c in range(C)))
        if not floor_risk:
            close("closed_form:fourier_MSE", fgot["MSE"], sum(mse_c), scale=sc + sum(ref_c))
            fb = val("fourier_MSE", ju, jv, domain_extent=L, low=band[0], high=band[1])
            close("closed_form:band", fb, sum(band_c), scale=sc + sum(ref_c), k=key + ":band")
            h1 = val("H1_MSE", ju, jv, domain_extent=L)
            gsc = sc + sum(ref_c) + sum(map(sum, grad_c)) + sum(map(sum, gref_c))
            close("closed_form:H1_MSE", h1, sum(mse_c) + sum(map(sum, grad_c)), scale=gsc, k=key + ":sobolev")
            h1r = val("H1_RMSE", ju, jv, domain_extent=L)
            close(
                "closed_form:H1_RMSE",
                h1r,
                sum(math.sqrt(x) for x in mse_c) + sum(math.sqrt(x) for g in grad_c for x in g),
                scale=math.sqrt(gsc) * (1 + D),
                k=key + ":sobolev",
            )
    # MAE of a constant offset
    off = case["alpha"]
    close("closed_form:MAE_constant_offset", val("MAE", ju + off, ju, domain_extent=L), C * abs(off) * L**D, scale=C * (abs(off) + np.max(np.abs(u))) * L**D)

    # ---- 3. L-scaling
    for name, pw in (("MAE", D), ("MSE", D), ("RMSE", D / 2), ("nMAE", 0), ("nMSE", 0), ("nRMSE", 0), ("sMAE", 0), ("sMSE", 0), ("sRMSE", 0)):
        close("L_scaling:" + name, got[name], (val(name, ju, jv) or 0.0) * L**pw, k=key + ":L_scaling")
    if not floor_risk:
        for name, pw in (("MSE", D), ("RMSE", D / 2), ("nMSE", 0), ("nRMSE", 0), ("MAE", D), ("nMAE", 0)):
            close("L_scaling:fourier_" + name, fgot[name], (val("fourier_" + name, ju, jv) or 0.0) * L**pw, k=key + ":L_scaling")

    # ---- 5. additivity over channels (all metrics) and over a full band partition
    if C >= 2:
        for name in ("MAE", "MSE", "RMSE", "nMAE", "nMSE", "nRMSE", "sMAE", "sMSE", "sRMSE"):
            parts = sum(val(name, ju[c : c + 1], jv[c : c + 1], domain_extent=L) or 0.0 for c in range(C))
            close("channel_additivity:" + name, got[name], parts, k=key + ":channel_additivity")
        for name in ("MAE", "MSE", "RMSE", "nMAE", "nMSE", "nRMSE"):
            parts = sum(val("fourier_" + name, ju[c : c + 1], jv[c : c + 1], domain_extent=L) or 0.0 for c in range(C))
            close("channel_additivity:fourier_" + name, fgot[name], parts, k=key + ":channel_additivity")
        for name in ("H1_MSE", "H1_RMSE", "H1_MAE", "H1_nMSE"):
            if name == "H1_nMSE" and not gref_ok:
                continue
            tot = val(name, ju, jv, domain_extent=L)
            parts = sum(val(name, ju[c : c + 1], jv[c : c + 1], domain_extent=L) or 0.0 for c in range(C))
            close("channel_additivity:" + name, tot, parts, k=key + ":channel_additivity")
    cuts = sorted(set(case["cuts"]))
    edges = [0] + [c + 1 for c in cuts if c + 1 <= N // 2] + [N // 2 + 1]
    edges = sorted(set(edges))
    for name in ("fourier_MAE", "fourier_MSE"):
        tot = val(name, ju, jv, domain_extent=L)
        parts = 0.0
        for lo, hi in zip(edges[:-1], edges[1:]):
            parts += val(name, ju, jv, domain_extent=L, low=lo, high=hi - 1) or 0.0
        close("band_additivity:" + name, tot, parts, k=key + ":band")
        full = val(name, ju, jv, domain_extent=L, low=0, high=N // 2 + 1)
        close("band_full_range:" + name, tot, full, k=key + ":band")
        onlyhigh = val(name, ju, jv, domain_extent=L, high=N // 2 + 1)
        close("band_full_range:" + name, tot, onlyhigh, k=key + ":band")

    # ---- 6. axioms
    for name in ("MAE", "MSE", "RMSE", "nMAE", "nMSE", "nRMSE", "sMAE", "sMSE", "sRMSE", "fourier_MSE", "fourier_MAE", "fourier_nRMSE", "H1_MSE", "H1_nRMSE"):
        if name == "H1_nRMSE" and not (np.all(rms(np_grad(u, L).reshape(C, -1)) > 1e-3 * 2 * math.pi / L)):
            continue
        z = val(name, ju, ju, domain_extent=L)
        if z is not None:
            res.claim("axiom:zero_for_identical:" + name, abs(z), 0.0, key=key + ":axiom_zero")
    if res.nontrivial:
        for name in ("MAE", "MSE", "RMSE", "nMAE", "nMSE", "nRMSE", "sMAE", "sMSE", "sRMSE"):
            res.true("axiom:positive:" + name, got[name] is not None and got[name] > 0, key=key + ":axiom_positive")
    for name in ("MAE", "MSE", "RMSE", "sMAE", "sMSE", "sRMSE"):
        close("axiom:symmetry:" + name, val(name, jv, ju, domain_extent=L), got[name], k=key + ":axiom_symmetry")
    if not floor_risk:
        for name in ("MAE", "MSE", "RMSE"):
            close("axiom:symmetry:fourier_" + name, val("fourier_" + name, jv, ju, domain_extent=L), fgot[name] if name != "MAE" else fgot["MAE"], k=key + ":axiom_symmetry")
    a = case["alpha"]
    for name, deg in (("MAE", 1), ("RMSE", 1), ("MSE", 2), ("nMAE", 0), ("nMSE", 0), ("nRMSE", 0), ("sMAE", 0), ("sMSE", 0), ("sRMSE", 0)):
        close("axiom:homogeneity:" + name, val(name, a * ju, a * jv, domain_extent=L), got[name] * abs(a) ** deg if got[name] is not None else None, k=key + ":axiom_homogeneity")
    if not floor_risk and abs(a) >= 1:
        for name, deg in (("MAE", 1), ("RMSE", 1), ("MSE", 2), ("nMSE", 0), ("nRMSE", 0)):
            close("axiom:homogeneity:fourier_" + name, val("fourier_" + name, a * ju, a * jv, domain_extent=L), fgot[name] * abs(a) ** deg if fgot[name] is not None else None, k=key + ":axiom_homogeneity")
    for name, fn, kw in (("nMAE", M.nMAE, {}), ("sRMSE", M.sRMSE, {}), ("fourier_nMSE", M.fourier_nMSE, {}), ("H1_nMAE", M.H1_nMAE, {})):
        try:
            fn(ju, None, **kw) if name[0] != "s" else fn(ju, None)
            res.true("axiom:reference_required:" + name, False, key=key + ":reference_required", msg="no ValueError")
        except ValueError:
            res.true("axiom:reference_required:" + name, True)
        except Exception as e:  # noqa: BLE001
            res.true("axiom:reference_required:" + name, False, key=key + ":reference_required", msg="%s instead of ValueError" % type(e).__name__)

    # ---- 7. Sobolev decomposition against the plain metrics of the gradient fields
    nyq_free = N % 2 == 1 or (case["u"]["kind"] != "white" and case["v"]["kind"] != "white")
    if nyq_free and not floor_risk:
        gu, gv = np_grad(u, L), np_grad(v, L)
        gd = gu - gv
        # MSE-type: X(u,v) + sum_d X(d_d u, d_d v)
        want_mse = sp["MSE"] + sum(agg(gd[c, dd], L, 2.0, 1.0) for c in range(C) for dd in range(D))
        want_rmse = sp["RMSE"] + sum(agg(gd[c, dd], L, 2.0, 0.5) for c in range(C) for dd in range(D))
        want_nmse = sp["nMSE"] + sum(
            sum(agg(gd[c, dd], L, 2.0, 1.0) for dd in range(D)) / sum(agg(gv[c, dd], L, 2.0, 1.0) for dd in range(D))
            for c in range(C)
        )
        want_nrmse = sp["nRMSE"] + sum(
            sum(agg(gd[c, dd], L, 2.0, 0.5) for dd in range(D)) / sum(agg(gv[c, dd], L, 2.0, 0.5) for dd in range(D))
            for c in range(C)
        )
        nyq = math.pi * N / L
        amp2 = float(np.sum(d**2) + np.sum(v**2)) * (L / N) ** D
        close("sobolev:H1_MSE", val("H1_MSE", ju, jv, domain_extent=L), want_mse, scale=amp2 * (1 + D * nyq**2), k=key + ":sobolev")
        close("sobolev:H1_RMSE", val("H1_RMSE", ju, jv, domain_extent=L), want_rmse, scale=math.sqrt(amp2) * (1 + D * nyq) * C, k=key + ":sobolev")
        if gref_ok:
            close("sobolev:H1_nMSE", val("H1_nMSE", ju, jv, domain_extent=L), want_nmse, tol=1e-9, k=key + ":sobolev")
            close("sobolev:H1_nRMSE", val("H1_nRMSE", ju, jv, domain_extent=L), want_nrmse, tol=1e-9, k=key + ":sobolev")
        # MAE-type in terms of the Fourier MAE of the gradient fields
        parts = fgot["MAE"]
        if parts is not None:
            for dd in range(D):
                parts += val("fourier_MAE", jnp.asarray(gu[:, dd]), jnp.asarray(gv[:, dd]), domain_extent=L) or 0.0
            close("sobolev:H1_MAE", val("H1_MAE", ju, jv, domain_extent=L), parts, tol=1e-9, k=key + ":sobolev")

    # ---- 8. correlation, mean_metric
    ok, co = res.lib("correlation", M.correlation, ju, jv, key=key)
    if ok:
        co = float(co)
        res.claim("correlation:range", abs(co), 1.0 + 1e-12, key=key + ":correlation")
        want = np.mean([np.sum(u[c] * v[c]) / math.sqrt(np.sum(u[c] ** 2) * np.sum(v[c] ** 2)) for c in range(C)])
        close("correlation:value", co, want, scale=1.0, k=key + ":correlation")
        close("correlation:proportional", float(M.correlation(ju, a * ju)), math.copysign(1.0, a), scale=1.0, k=key + ":correlation")
        close("correlation:symmetric", float(M.correlation(jv, ju)), co, scale=1.0, k=key + ":correlation")
    batch_u = jnp.stack([ju, jv, a * ju])
    batch_v = jnp.stack([jv, ju, jv])
    ok, mm = res.lib("mean_metric", M.mean_metric, M.nRMSE, batch_u, batch_v, domain_extent=L, key=key)
    if ok:
        want = np.mean([float(M.nRMSE(batch_u[i], batch_v[i], domain_extent=L)) for i in range(3)])
        close("mean_metric", float(mm), want, k=key + ":mean_metric")
    return res


# ------------------------------------------------------------------ resolution independence


def res_strata(tier):
    if tier == "quick":
        pairs = {1: [(7, 12), (8, 9)], 2: [(5, 8), (6, 7)], 3: [(4, 5), (5, 6)]}
    else:
        pairs = {1: [(5, 6), (7, 12), (8, 9), (16, 31), (9, 40)], 2: [(5, 8), (6, 7), (7, 16), (9, 12)], 3: [(4, 5), (5, 6), (5, 9), (7, 8)]}
    return [dict(id="D%d-%d-%d" % (D, a, b), D=D, N1=a, N2=b) for D in (1, 2, 3) for a, b in pairs[D]]


def res_strategy(stratum, tier):
    D, N1, N2 = stratum["D"], stratum["N1"], stratum["N2"]
    kmax = (min(N1, N2) - 1) // 2
    return st.integers(1, 3).flatmap(
        lambda C: st.fixed_dictionaries(
            dict(
                D=st.just(D), N1=st.just(N1), N2=st.just(N2), C=st.just(C), L=gens.st_L(0.2, 50.0),
                u=gens.st_trig(C, D, kmax, 1, 4), v=gens.st_trig(C, D, kmax, 1, 4),
                mean_u=st.one_of(st.just(0.0), gens.nonzero_coef(0.05, 1.0)), mean_v=st.one_of(st.just(0.0), gens.nonzero_coef(0.05, 1.0)),
            )
        )
    )  # fmt: skip


def res_check(case):
    D, N1, N2, C, L = (case[k] for k in ("D", "N1", "N2", "C", "L"))
    res = R()
    res.tag("D%d" % D, "C%d" % C)
    key = "C16:D%d:resolution" % D
    vals = {}
    for N in (N1, N2):
        u = orc.make_state(case["u"], C, D, N, L) + case["mean_u"]
        v = orc.make_state(case["v"], C, D, N, L) + case["mean_v"]
        if near_floor(u - v) or near_floor(v) or near_floor(u):
            res.tag("near_1e-5_floor")
            return res
        if not np.all(np.max(np.abs((u - v).reshape(C, -1)), axis=1) > 1e-3):
            return res
        rms = lambda x: np.sqrt(np.mean(x.reshape(x.shape[0], -1) ** 2, axis=1))  # noqa: E731
        if not (np.all(rms(u) > 1e-2) and np.all(rms(v) > 1e-2)):
            res.tag("degenerate_channel_skipped")
            return res
        gref_ok = bool(np.all(rms(np_grad(v, L).reshape(C, -1)) > 1e-3 * 2 * math.pi / L))
        ju, jv = jnp.asarray(u), jnp.asarray(v)
        for name in ("MSE", "RMSE", "nMSE", "nRMSE", "sMSE", "sRMSE", "fourier_MSE", "fourier_RMSE", "fourier_nMSE", "fourier_nRMSE", "H1_MSE", "H1_RMSE", "H1_nMSE", "H1_nRMSE"):
            if name in ("H1_nMSE", "H1_nRMSE") and not gref_ok:
                continue
            ok, x = res.lib(name, getattr(M, name), ju, jv, domain_extent=L, key=key)
            if ok:
                vals[(name, N)] = float(x)
    res.nontrivial = True
    for name in sorted({n for (n, _) in vals}):
        if (name, N1) in vals and (name, N2) in vals:
            a, b = vals[(name, N1)], vals[(name, N2)]
            res.claim("resolution_independence:" + name, abs(a - b), 1e-9 * max(abs(a), abs(b)) + 1e-300, key=key)
    return res


# ------------------------------------------------------------------ low-level aggregators / norms


def agg_strategy(stratum, tier):
    D, N = stratum["D"], stratum["N"]
    return st.fixed_dictionaries(
        dict(
            D=st.just(D), N=st.just(N), C=st.integers(1, 3), L=gens.st_L(0.2, 50.0),
            u=gens.st_white(0.3, 3.0), v=gens.st_white(0.3, 3.0, kind="nyqfree"),
            p=st.sampled_from([1.0, 2.0, 3.0, 0.5]), q=st.sampled_from([None, 1.0, 0.5, 2.0]),
            order=st.sampled_from([1, 2, 3]),
        )
    )  # fmt: skip


def agg_check(case):
    D, N, C, L, p, q = (case[k] for k in ("D", "N", "C", "L", "p", "q"))
    res = R()
    res.nontrivial = True
    res.tag("aggregators", "D%d" % D, "p=%g" % p, "q=%s" % q)
    key = "C16:aggregators:D%d" % D
    u = orc.make_state(case["u"], C, D, N)
    v = orc.make_state(case["v"], C, D, N)
    qq = 1 / p if q is None else q
    kw = dict(domain_extent=L, inner_exponent=p)
    if q is not None:
        kw["outer_exponent"] = q
    want = agg(u[0], L, p, qq)
    ok, got = res.lib("spatial_aggregator", M.spatial_aggregator, jnp.asarray(u[0]), key=key, **kw)
    if ok:
        res.claim("spatial_aggregator:definition", abs(float(got) - want), 1e-11 * abs(want) + 1e-300, key=key + ":spatial_aggregator")
    for mode in ("absolute", "normalized", "symmetric"):
        dn = [agg((u - v)[c], L, p, qq) for c in range(C)]
        un = [agg(u[c], L, p, qq) for c in range(C)]
        vn = [agg(v[c], L, p, qq) for c in range(C)]
        w = {"absolute": sum(dn), "normalized": sum(dn[c] / vn[c] for c in range(C)), "symmetric": sum(2 * dn[c] / (un[c] + vn[c]) for c in range(C))}[mode]
        ok, got = res.lib("spatial_norm", M.spatial_norm, jnp.asarray(u), jnp.asarray(v), mode=mode, key=key, **kw)
        if ok:
            res.claim("spatial_norm:definition:" + mode, abs(float(got) - w), 1e-11 * abs(w) + 1e-300, key=key + ":spatial_norm")
    # Fourier aggregator with p = 2 equals the spatial one for any outer exponent (Parseval); derivative orders
    kw2 = dict(domain_extent=L, inner_exponent=2.0)
    if q is not None:
        kw2["outer_exponent"] = q
    q2 = 0.5 if q is None else q
    if not near_floor(v):
        ok, got = res.lib("fourier_aggregator", M.fourier_aggregator, jnp.asarray(v[0]), key=key, **kw2)
        if ok:
            w = agg(v[0], L, 2.0, q2)
            res.claim("fourier_aggregator:parseval", abs(float(got) - w), 1e-10 * abs(w) + 1e-300, key=key + ":fourier_aggregator")
        o = case["order"]
        U = orc.rfftn(v[0:1])
        kap = 2 * math.pi / L * orc.rfft_wavenumbers(D, N)
        w = sum(agg(orc.irfftn((1j * kap[d]) ** o * U, N)[0], L, 2.0, q2) for d in range(D))
        ok, got = res.lib("fourier_aggregator:derivative", M.fourier_aggregator, jnp.asarray(v[0]), derivative_order=o, key=key, **kw2)
        if ok and (N % 2 == 1 or True):
            # v is Nyquist-free, so the real inverse transform of the differentiated field loses nothing
            res.claim("fourier_aggregator:derivative_order", abs(float(got) - w), 1e-9 * abs(w) + 1e-300, key=key + ":fourier_derivative")
        ok, got = res.lib("fourier_norm", M.fourier_norm, jnp.asarray(v), None, mode="absolute", key=key, **kw2)
        if ok:
            w = sum(agg(v[c], L, 2.0, q2) for c in range(C))
            res.claim("fourier_norm:parseval", abs(float(got) - w), 1e-10 * abs(w) + 1e-300, key=key + ":fourier_norm")
    return res


SUBS = [
    Sub("pairs", check, strata=strata, strategy=strategy, n=(8, 30), reps=(2, 3)),
    Sub("resolution", res_check, strata=res_strata, strategy=res_strategy, n=(8, 40), reps=(1, 2)),
    Sub("aggregators", agg_check, strata=strata, strategy=agg_strategy, n=(8, 40)),
]
