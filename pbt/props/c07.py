"""C07 - steppers are differentiable with correct derivatives."""

from __future__ import annotations

import math

import numpy as np
from hypothesis import strategies as st

import jax
import jax.numpy as jnp

import exponax as ex
from pbt import configs, gens, model, oracles as orc, registry as reg
from pbt.core import R, Sub
from pbt.props.c06 import TUPLE_PARAMS, VEC_PARAMS, sweepables

RULE = (
    "Strata: every stepper family (all exported classes) x D x state kind (white noise, white noise + "
    "mean, constant, zero - the flat states are where guarded divisions / square roots produce NaN "
    "derivatives) ; Hypothesis draws the configuration, order 0-4, tangent and cotangent directions, a "
    "rollout length <= 5 and, enumerated per family, each differentiable documented parameter (dt, "
    "every float coefficient, vectors, coefficient tuples; domain_extent is not in the property's list). Claims: jvp w.r.t. the state "
    "equals central finite differences; vjp is the adjoint of jvp (<w, J t> = <J^T w, t>); linear "
    "steppers: J t = S(t) and S is linear; the same through ex.rollout / ex.repeat; parameter "
    "derivatives: forward mode equals central differences, reverse mode (jax.grad of <w, step>) equals "
    "<w, forward derivative>; every derivative finite whenever the primal is finite. Non-trivial: "
    "||J t|| > 1e-9 ||t|| and the output depends on the parameter. Structured strata: purely real symbols (all odd-order coefficients exactly 0) for every order with one-entry directions; list entries / scalars exactly 0; derivative finiteness and J = S at the rest state u = 0."
)
ASSUMPTIONS = [
    "float64 session; central differences with relative step 1e-6 (tolerance 1e-6*max|derivative| + 1e-8*max|output|)",
]

LINEAR = set(configs.LINEAR_FAMILIES)
STATE_KINDS = ["white", "white_mean", "const", "zero"]


def strata(tier):
    ns = {1: [8, 9], 2: [6, 7], 3: [5, 6]}
    out = []
    i = 0
    for f in configs.ALL_FAMILIES:
        cls, dims = configs.family_info(f)
        for D in dims:
            i += 1
            if tier == "quick" and len(dims) == 3 and (i % 3) != 0:
                continue
            for si, sk in enumerate(STATE_KINDS):
                if tier == "quick" and (i + si) % 4 != 1:
                    continue
                out.append(dict(id="%s-D%d-%s" % (f, D, sk), fam=f, D=D, N=ns[D][i % 2], sk=sk))
    return out


def make_u(sk, seed, shape, amp, mean):
    rng = np.random.default_rng(seed)
    C = shape[0]
    D = len(shape) - 1
    if sk == "white":
        u = amp * rng.standard_normal(shape)
        u = u - u.mean(axis=tuple(range(1, D + 1)), keepdims=True)
    elif sk == "white_mean":
        u = amp * rng.standard_normal(shape) + mean
    elif sk == "const":
        u = np.ones(shape) * mean
    else:
        u = np.zeros(shape)
    return u


def strategy(stratum, tier):
    f, D, N = stratum["fam"], stratum["D"], stratum["N"]
    return st.fixed_dictionaries(
        dict(
            fam=st.just(f),
            sk=st.just(stratum["sk"]),
            spec=configs.st_spec(f, D, N, orders=(0, 1, 2, 3, 4), dt=gens.log_floats(1e-3, 0.1)),
            seed=gens.st_seed(),
            amp=st.floats(0.2, 1.0).map(lambda x: float("%.3g" % x)),
            mean=gens.nonzero_coef(0.2, 1.0),
            n=st.sampled_from([3, 2, 5, 1]),
        )
    )


def fd_tol(d, out):
    return 1e-6 * float(np.max(np.abs(d))) + 1e-8 * float(np.max(np.abs(out))) + 1e-300


def fd_roundoff(h, u, out):
    """round-off of a central difference quotient: the two evaluations carry absolute rounding errors of about
    eps * (largest magnitude met on the way: input or output), divided by 2h.  Matters when the output has decayed
    to the rounding level of the input (strongly damped steps), where the derivative itself is ~0."""
    return 8 * 2.2e-16 * max(float(np.max(np.abs(u))), float(np.max(np.abs(out)))) / h


def check(case):
    res = R()
    spec = case["spec"]
    D, N = spec["D"], spec["N"]
    fam = case["fam"]
    cls = spec["cls"]
    key = "C07:%s" % cls
    p = model.order_of(spec)
    C = model.num_channels(spec)
    shape = (C,) + (N,) * D
    res.tag(fam, "D%d" % D, "order%d" % p, case["sk"])
    u = make_u(case["sk"], case["seed"], shape, case["amp"], case["mean"])
    rng = np.random.default_rng(case["seed"] + 7)
    t = rng.standard_normal(shape)
    w = rng.standard_normal(shape)
    ok, S = res.lib("construct", reg.build, spec, key=key)
    if not ok:
        return res
    ju, jt, jw = jnp.asarray(u), jnp.asarray(t), jnp.asarray(w)
    out = np.asarray(S(ju))
    if not np.all(np.isfinite(out)):
        res.tag("primal_non_finite_skipped")
        return res
    n = case["n"]
    funs = {"step": S, "rollout": ex.rollout(S, n), "repeat": ex.repeat(S, n)}
    for name, f in funs.items():
        prim = np.asarray(f(ju))
        if not np.all(np.isfinite(prim)) or np.max(np.abs(prim)) > 1e3:
            res.tag(name + ":primal_unstable_skipped")
            continue
        k = key + ":" + name
        ok, r = res.lib("jvp:" + name, lambda f=f: jax.jvp(f, (ju,), (jt,)), key=k + ":jvp")
        if not ok:
            continue
        Jt = np.asarray(r[1])
        res.true("jvp_finite:" + name, bool(np.all(np.isfinite(Jt))), key=k + ":jvp_finite", msg="NaN/inf in forward derivative")
        h = 1e-6 * max(1.0, float(np.max(np.abs(u))))
        fd = (np.asarray(f(ju + h * jt)) - np.asarray(f(ju - h * jt))) / (2 * h)
        if np.all(np.isfinite(Jt)) and np.all(np.isfinite(fd)):
            res.claim("jvp_equals_central_differences:" + name, float(np.max(np.abs(Jt - fd))), fd_tol(fd, prim) + fd_roundoff(h, u, prim), key=k + ":jvp_value")
        wv = jnp.asarray(rng.standard_normal(prim.shape))
        ok, vj = res.lib("vjp:" + name, lambda f=f, wv=wv: jax.vjp(f, ju)[1](wv)[0], key=k + ":vjp")
        if ok:
            vj = np.asarray(vj)
            res.true("vjp_finite:" + name, bool(np.all(np.isfinite(vj))), key=k + ":vjp_finite", msg="NaN/inf in reverse derivative")
            if np.all(np.isfinite(vj)) and np.all(np.isfinite(Jt)):
                a = float(np.sum(np.asarray(wv) * Jt))
                b = float(np.sum(vj * t))
                sc = float(np.sqrt(np.sum(np.asarray(wv) ** 2) * np.sum(Jt**2))) + float(np.sqrt(np.sum(vj**2) * np.sum(t**2)))
                # floor: both sums carry rounding errors relative to the input scale even when the map has damped
                # the derivative itself to (almost) nothing
                afloor = 1e-14 * float(np.sqrt(np.sum(np.asarray(wv) ** 2) * np.sum(t**2))) * max(1.0, float(np.max(np.abs(u))))
                res.claim("vjp_is_adjoint_of_jvp:" + name, abs(a - b), 1e-11 * sc + afloor + 1e-300, key=k + ":adjoint")
        if name == "step":
            # "derivatives are finite wherever the step itself is finite": also at the rest state u = 0 (exact
            # zeros are where pow / abs / sqrt-type derivative rules break down)
            z0 = jnp.zeros_like(ju)
            o0 = np.asarray(S(z0))
            if np.all(np.isfinite(o0)):
                ok0, r0 = res.lib("jvp_at_zero_state", lambda: jax.jvp(S, (z0,), (jt,)), key=k + ":jvp_zero_state")
                if ok0:
                    res.true("jvp_finite_at_zero_state", bool(np.all(np.isfinite(np.asarray(r0[1])))), key=k + ":jvp_finite_zero_state", msg="NaN/inf in forward derivative at u = 0")
                    if fam in LINEAR:
                        St0 = np.asarray(S(jt))
                        res.claim("linear:jacobian_at_zero_state_is_the_map", float(np.max(np.abs(np.asarray(r0[1]) - St0))), 1e-11 * (float(np.max(np.abs(St0))) + 1e-300), key=k + ":linear")
                ok0, v0 = res.lib("vjp_at_zero_state", lambda: jax.vjp(S, z0)[1](jw)[0], key=k + ":vjp_zero_state")
                if ok0:
                    res.true("vjp_finite_at_zero_state", bool(np.all(np.isfinite(np.asarray(v0)))), key=k + ":vjp_finite_zero_state", msg="NaN/inf in reverse derivative at u = 0")
            res.nontrivial = bool(np.sqrt(np.sum(Jt**2)) > 1e-9 * np.sqrt(np.sum(t**2)))
            if fam in LINEAR:
                St = np.asarray(S(jt))
                res.claim("linear:jacobian_is_the_map", float(np.max(np.abs(Jt - St))), 1e-11 * (float(np.max(np.abs(St))) + 1e-300), key=k + ":linear")
                al, be = 0.7, -1.3
                lin = np.asarray(S(al * ju + be * jt)) - (al * out + be * St)
                res.claim("linear:superposition", float(np.max(np.abs(lin))), 1e-11 * (float(np.max(np.abs(out))) + float(np.max(np.abs(St))) + 1e-300), key=k + ":linear")
    return res


# ------------------------------------------------------------------ parameter derivatives


def p_strata(tier):
    ns = {1: [8, 9], 2: [6, 7], 3: [5, 6]}
    out = []
    i = 0
    if tier == "quick":
        # every stepper CLASS at least once (first and middle flag variant of the multi-variant classes), the
        # dimension rotating over the classes
        by_cls = {}
        for f in configs.ALL_FAMILIES:
            by_cls.setdefault(configs.family_info(f)[0], []).append(f)
        for ci, (cls, fams) in enumerate(by_cls.items()):
            pick = [fams[0]] + ([fams[len(fams) // 2 + 1]] if len(fams) > 2 else fams[1:2])
            for j, f in enumerate(pick):
                dims = configs.family_info(f)[1]
                D = dims[(ci + j) % len(dims)]
                out.append(dict(id="%s-D%d" % (f, D), fam=f, D=D, N=ns[D][(ci + j) % 2]))
        return _with_real_symbol(out, tier)
    for f in configs.ALL_FAMILIES:
        cls, dims = configs.family_info(f)
        for D in dims:
            i += 1
            out.append(dict(id="%s-D%d" % (f, D), fam=f, D=D, N=ns[D][i % 2]))
    return _with_real_symbol(out, tier)


def _with_real_symbol(out, tier):
    ns = {1: [8, 9], 2: [6, 7], 3: [5, 6]}
    fams = REAL_SYMBOL_FAMS if tier != "quick" else REAL_SYMBOL_FAMS[::2] + REAL_SYMBOL_FAMS[1:2]
    for j, f in enumerate(fams):
        dims = configs.family_info(f)[1]
        D = dims[j % len(dims)]
        out.append(dict(id="%s-D%d-real_symbol" % (f, D), fam=f, D=D, N=ns[D][j % 2], real_symbol=True))
    return out


def p_frames(stratum, tier):
    return list(range(7))


REAL_SYMBOL_FAMS = ["GenConv_mn", "GenConv_sc", "GenNonlin", "GenPoly", "GenGradNorm", "KdV_mnad", "KdV_scAD", "GenVort", "NormConv_mn", "DiffNonlin"]


def p_strategy(stratum, tier, frame):
    f, D, N = stratum["fam"], stratum["D"], stratum["N"]
    if stratum.get("real_symbol"):
        # structured stratum: the purely real symbol (all odd-order coefficients exactly 0, dispersivity = 0) for every
        # order (frame -> order), differentiated w.r.t. one of the zeroed odd-order coefficients
        return st.fixed_dictionaries(
            dict(
                fam=st.just(f),
                spec=configs.st_spec(f, D, N, orders=(0, 1, 2, 3, 4), dt=gens.log_floats(1e-3, 0.1)),
                seed=gens.st_seed(),
                which=st.just(0),
                target=st.just("odd_order_coefficient"),
                sk=st.sampled_from(["white_mean", "white"]),
                n=st.sampled_from([1, 1, 3]),
                zero_comp=st.just("odd"),
                zero_scalar=st.just(True),
                order_pick=st.just([2, 1, 3, 4, 2, 1, 2][frame % 7]),
                force_order=st.just(True),
                single_direction=st.just(True),
            )
        )
    return st.fixed_dictionaries(
        dict(
            fam=st.just(f),
            spec=configs.st_spec(f, D, N, orders=(0, 1, 2, 3, 4), dt=gens.log_floats(1e-3, 0.1)),
            seed=gens.st_seed(),
            which=st.just(frame),
            sk=st.sampled_from(["white_mean", "white", "const"]),
            n=st.sampled_from([1, 1, 3]),
            # coefficient lists with one entry exactly 0.0 (the library defaults, e.g. (0, -1, 0), contain zeros)
            zero_comp=st.sampled_from([None, 1, "odd", None, 0, 2, "odd"]),
            zero_scalar=st.sampled_from([False, False, True]),
            order_pick=st.integers(0, 4),
        )
    )


def p_check(case):
    res = R()
    spec = case["spec"]
    D, N = spec["D"], spec["N"]
    cls = spec["cls"]
    key = "C07:%s" % cls
    C = model.num_channels(spec)
    # the property lists dt and the PDE coefficients; domain_extent is not among them
    names = [x for x in sweepables(spec) if x != "domain_extent"]
    if not names:
        res.tag("no_such_parameter")
        return res
    name = names[case["which"] % len(names)]  # frames beyond the number of parameters revisit them with new draws
    if case.get("target") == "odd_order_coefficient":
        tn = [x for x in names if x in ("linear_coefficients", "normalized_linear_coefficients", "linear_difficulties", "dispersivity")]
        if not tn:
            res.tag("no_such_parameter")
            return res
        name = tn[0]
        if case.get("force_order") and "order" in spec["kw"]:
            spec = dict(spec, kw=dict(spec["kw"], order=int(case["order_pick"])))
        if "dispersivity" in spec["kw"]:
            spec = dict(spec, kw=dict(spec["kw"], dispersivity=0.0))
    p = model.order_of(spec)
    res.tag(case["fam"], "D%d" % D, "order%d" % p, "param:" + name, case["sk"])
    shape = (C,) + (N,) * D
    u = make_u(case["sk"], case["seed"], shape, 0.5, 0.4)
    ju = jnp.asarray(u)
    rng = np.random.default_rng(case["seed"] + 3)
    if name == "dt":
        base = np.asarray(spec["dt"], dtype=float)
    elif name == "domain_extent":
        base = np.asarray(spec["L"], dtype=float)
    else:
        if case.get("zero_scalar") and isinstance(spec["kw"][name], float) and any(x in name for x in ("dispers", "veloc", "drag", "convection")):
            # differentiating AT the value 0 (no dispersion, no drag, ...), where the symbol may become purely real
            spec = dict(spec, kw=dict(spec["kw"], **{name: 0.0}))
            res.tag("scalar_exactly_zero")
        if name in TUPLE_PARAMS and case.get("zero_comp") is not None and len(spec["kw"][name]) > 1:
            lst = list(spec["kw"][name])
            if case["zero_comp"] == "odd":
                # all odd-order entries zero: a purely real symbol (the library default (0, 0, 0.01) is of this kind);
                # the real/complex distinction matters inside the ETDRK coefficient routines, so the order is drawn
                # again with the default order 2 twice as likely
                for j_ in range(1, len(lst), 2):
                    lst[j_] = 0.0
                if "order" in spec["kw"] and case.get("order_pick") is not None and not case.get("force_order"):
                    spec = dict(spec, kw=dict(spec["kw"], order=[2, 1, 2, 3, 4][case["order_pick"] % 5]))
            else:
                lst[case["zero_comp"] % len(lst)] = 0.0
            spec = dict(spec, kw=dict(spec["kw"], **{name: type(spec["kw"][name])(lst)}))
            res.tag("list_entry_exactly_zero")
        base = np.asarray(spec["kw"][name], dtype=float)
        if name in VEC_PARAMS and base.ndim == 0 and cls in ("Advection", "Diffusion", "AdvectionDiffusion", "Dispersion"):
            base = np.ones(D) * base
    n = case["n"]

    def make(v):
        if name == "dt":
            return reg.build(spec, dt=v)
        if name == "domain_extent":
            return reg.build(spec, L=v)
        if name in TUPLE_PARAMS:
            return reg.build(spec, kw={name: tuple(v[i] for i in range(v.shape[0]))})
        return reg.build(spec, kw={name: v})

    def f(v):
        s = make(v)
        return s(ju) if n == 1 else ex.repeat(s, n)(ju)

    k = key + ":param:" + name
    ok, prim = res.lib("primal", lambda: np.asarray(f(jnp.asarray(base))), key=k)
    if not ok:
        return res
    if not np.all(np.isfinite(prim)) or np.max(np.abs(prim)) > 1e3:
        res.tag("primal_unstable_skipped")
        return res
    # direction scaled per component (coefficients of different derivative orders differ by many decades):
    # a step h along dv changes every component by about h relative to its own size
    comp = np.maximum(np.abs(base), 1e-3 * max(float(np.max(np.abs(base))), 1e-12)) if base.ndim else np.asarray(max(abs(float(base)), 0.1))
    if base.ndim and name == "linear_coefficients" and cls not in reg.NO_L_DT:
        # zero entries of a linear coefficient list (no advection: a_1 = 0, no dispersion: a_3 = 0 are the usual
        # values): perturbed so that their contribution to lambda*dt at the highest wavenumber is 0.1
        Lz, dtz = reg.eff_L_dt(spec)
        kmx = 2 * math.pi / Lz * (N // 2)
        comp = np.where(base == 0, 0.1 / (np.maximum(kmx, 1e-300) ** np.arange(base.shape[0]) * abs(dtz)), comp)
    if base.ndim and any(x in name for x in ("nonlinear", "polynomial")):
        # scales of nonlinear terms are of one physical order: entries that are exactly zero (library defaults such as
        # (0, -1, 0)) are perturbed as strongly as the others, so that a derivative that ignores them is visible
        comp = np.where(base == 0, 0.3 * max(float(np.max(np.abs(base))), 0.1), comp)
    dv = (rng.standard_normal(base.shape) * comp) if base.ndim else comp
    if base.ndim == 1 and base.shape[0] > 1 and case.get("single_direction", case["seed"] % 2 == 0):
        # one coefficient at a time (a wrong derivative w.r.t. one entry is not masked by the size of the others);
        # lists made purely even-order: one of the zeroed odd entries
        cand = [j_ for j_ in range(base.shape[0]) if (case.get("zero_comp") != "odd" or j_ % 2 == 1)] or list(range(base.shape[0]))
        j1 = cand[(case["seed"] // 2) % len(cand)]
        dv = np.where(np.arange(base.shape[0]) == j1, comp, 0.0)
        res.tag("single_entry_direction")
    jb, jd = jnp.asarray(base), jnp.asarray(dv)
    ok, r = res.lib("jvp_param", lambda: jax.jvp(f, (jb,), (jd,)), key=k + ":jvp")
    Jd = None
    if ok:
        Jd = np.asarray(r[1])
        res.true("param_jvp_finite", bool(np.all(np.isfinite(Jd))), key=k + ":jvp_finite", msg="NaN/inf in forward derivative w.r.t. " + name)
        # central differences: truncation error ~ (zmax*h)^2 for stiff symbols, round-off ~ eps/h
        try:
            Lx, dtx = reg.eff_L_dt(spec)
            kapx = 2 * math.pi / Lx * orc.rfft_wavenumbers(D, N)
            zmax = 0.0 if cls == "Wave" else float(np.max(np.abs(model.symbol(spec, kapx) * dtx)))
        except Exception:  # noqa: BLE001
            zmax = 0.0
        h = 1e-5 / max(1.0, zmax / 10.0)
        fd = (np.asarray(f(jnp.asarray(base + h * dv))) - np.asarray(f(jnp.asarray(base - h * dv)))) / (2 * h)
        if np.all(np.isfinite(Jd)) and np.all(np.isfinite(fd)):
            res.claim("param_jvp_equals_central_differences", float(np.max(np.abs(Jd - fd))), fd_tol(fd, prim) * 100 + fd_roundoff(h, u, prim), key=k + ":jvp_value")
            res.nontrivial = bool(np.max(np.abs(fd)) > 1e-9)
    w = jnp.asarray(rng.standard_normal(prim.shape))
    ok, g = res.lib("grad_param", lambda: jax.grad(lambda v: jnp.sum(w * f(v)))(jb), key=k + ":grad")
    if ok:
        g = np.asarray(g)
        res.true("param_grad_finite", bool(np.all(np.isfinite(g))), key=k + ":grad_finite", msg="NaN/inf in reverse derivative w.r.t. " + name)
        if Jd is not None and np.all(np.isfinite(g)) and np.all(np.isfinite(Jd)):
            a = float(np.sum(np.asarray(w) * Jd))
            b = float(np.sum(g * dv))
            sc = float(np.sqrt(np.sum(np.asarray(w) ** 2) * np.sum(Jd**2))) + abs(b)
            floor = 1e-13 * float(np.sqrt(np.sum(np.asarray(w) ** 2))) * max(float(np.max(np.abs(prim))), float(np.max(np.abs(u)))) * (float(np.max(np.abs(dv))) / max(float(np.max(np.abs(base))), 1e-300) if base.ndim else 1.0)
            res.claim("param_reverse_equals_forward", abs(a - b), 1e-10 * sc + floor + 1e-300, key=k + ":adjoint")
    return res


SUBS = [
    Sub("state_derivatives", check, strata=strata, strategy=strategy, n=(1, 2)),
    Sub("parameter_derivatives", p_check, strata=p_strata, strategy=p_strategy, frames=p_frames, n=(1, 1)),
]
