"""C19 - steps stay finite and precision-faithful across stiffness and dtype."""

from __future__ import annotations

import json
import math
import os

import numpy as np
from hypothesis import strategies as st

import jax
import jax.numpy as jnp

import exponax as ex
from pbt import configs, gens, model, oracles as orc, registry as reg
from pbt.core import R, Sub


class BoundedNonlin(ex.nonlin_fun.BaseNonlinearFun):
    """user-defined per-mode nonlinearity of at most linear growth (so that dt up to 1e4 cannot overflow
    single precision through the nonlinearity itself): a*u - b*u^3/(1+|u|^2) + c"""

    a: float
    b: float
    c: float

    def __init__(self, a, b, c):
        super().__init__(1, 4)
        self.a = a
        self.b = b
        self.c = c

    def __call__(self, u_hat):
        return self.a * u_hat - self.b * u_hat**3 / (1 + jnp.abs(u_hat) ** 2) + self.c


RULE = (
    "Integrator level: ETDRK0-4 x contour options x stiffness strata (lambda*dt = 0 exactly; -10^a with a in "
    "[-8, 15] on the real axis, on the imaginary axis and on the diagonal of the left half plane; mixed rows) "
    "in a float32 session (jax.enable_x64(False)) and a float64 session: every array leaf of the integrator "
    "and the step of an O(1) state are finite; the zero state maps to exactly zero for an unforced "
    "nonlinearity and to a finite state for a forced one. Stepper level: every exported stepper family x D x "
    "order 0-4 x stiffness stratum (tiny: max|lambda dt| < 1e-3, moderate, stiff: 1e3..1e12 by choosing dt) in "
    "both sessions: output dtype and all floating array leaves carry the session precision, outputs finite, "
    "float32 result vs float64 result of the same case within K*eps32*sqrt(N^D)*(1+max|Im lambda dt|)*scale, "
    "float64 result vs the independent reference model. Non-trivial: stiffest |lambda dt| >= 1e3, < 1e-3 or "
    "exactly 0, and state amplitude in [0.1, 2]. extreme_domain_precision: the stepper strata at L in [3e3,1e7] or [1e-3,0.3]. Integrators: per-mode float32 vs float64 on non-amplifying modes. float32 input in an x64 session keeps float64. late_x64: fresh interpreter, import exponax, then enable x64, C02 integrator comparison (batches of 3 cases)."
)
ASSUMPTIONS = [
    "both sessions run in one process through jax.enable_x64(False/True)",
    "growth bounded: max Re(lambda dt) <= 5",
    "phase error of single precision scales with |Im(lambda dt)| (dissipative modes contribute |z| e^{Re z} <= 1/e)",
    "output finiteness of whole steppers is asserted when dt*|N(u)| <= 0.5*|u| (zero state: dt*|N(0)| <= 0.5) (otherwise the generated polynomial nonlinearity overflows float32 by itself); coefficient finiteness is asserted always",
    "the float32-vs-float64 bound carries the conditioning factor (1 + 3 dt |N(u)|/|u|)^p of the nonlinear stages; half of the cases scale the state so that this factor is < 2, cases with a factor >= 10 are tagged ill-conditioned",
]

EPS32 = float(np.finfo(np.float32).eps)
K_TOL = 32.0

# ------------------------------------------------------------------ integrator level

Z_KINDS = ["zero", "real", "imag", "diag", "mixed", "special"]
SPECIAL = [-1.0, -0.5, -2.0, -1.5, -0.25, -4.0, -3.0, 1j, -1j, 0.5j, -0.5j, 2j, -2j, 1.5j, -1.5j, -1 + 1j, -1 - 1j, 0.0]


def a_strata(tier):
    return [dict(id="%s-p%d" % (z, p), z=z, order=p) for z in Z_KINDS for p in range(5)]


def a_strategy(stratum, tier):
    u01 = st.floats(0.0, 1.0).map(lambda x: float("%.5g" % x))
    return st.fixed_dictionaries(
        dict(
            z=st.just(stratum["z"]),
            order=st.just(stratum["order"]),
            expo=st.lists(u01, min_size=12, max_size=12),
            kinds=st.lists(st.sampled_from(["zero", "real", "imag", "diag"]), min_size=12, max_size=12),
            dt=gens.log_floats(1e-4, 1e4),
            forced=st.booleans(),
            seed=gens.st_seed(),
            contour=st.sampled_from(configs.CONTOURS),
        )
    )


def _z(kind, e):
    mag = 10.0 ** (-8 + 23 * e)
    if kind == "zero":
        return 0j
    if kind == "real":
        return complex(-mag, 0.0)
    if kind == "imag":
        return complex(0.0, mag if e > 0.5 else -mag)
    return complex(-mag / math.sqrt(2), mag / math.sqrt(2))


def a_check(case):
    res = R()
    p, dt = case["order"], case["dt"]
    kinds = case["kinds"] if case["z"] in ("mixed", "special") else [case["z"]] * 12
    z = np.array([_z(k, e) for k, e in zip(kinds, case["expo"])], dtype=complex)
    if case["z"] == "special":
        # exact values on and near the contour circle (radius r): -r, -2r, -r/2, +-i r, ... and integers
        r_ = case["contour"][0]
        sp = SPECIAL + [-r_, -2 * r_, -r_ / 2, 1j * r_, -1j * r_]
        rs = np.random.default_rng(case["seed"])
        z = np.array([sp[i] for i in rs.permutation(len(sp))[:12]], dtype=complex)
    # make sure the extreme ends are present
    if case["z"] not in ("zero", "special"):
        z[0] = _z(kinds[0] if kinds[0] != "zero" else "real", 1.0)
        z[1] = _z(kinds[1] if kinds[1] != "zero" else "real", 0.0)
    lam = (z / dt)[None, :]
    key = "C19:integrator:order%d:%s" % (p, case["z"])
    res.tag("A", case["z"], "order%d" % p, "forced" if case["forced"] else "unforced")
    res.nontrivial = True
    radius, M = case["contour"]
    rng = np.random.default_rng(case["seed"])
    U = rng.standard_normal((1, 12)) + 1j * rng.standard_normal((1, 12))
    nfc = 0.7 if case["forced"] else 0.0
    outs_a = {}
    for x64 in (False, True):
        sess = "float64" if x64 else "float32"
        with jax.enable_x64(x64):
            cdt = jnp.complex128 if x64 else jnp.complex64
            nf = BoundedNonlin(0.5, 0.25, nfc)
            cls = [ex.etdrk.ETDRK0, ex.etdrk.ETDRK1, ex.etdrk.ETDRK2, ex.etdrk.ETDRK3, ex.etdrk.ETDRK4][p]
            L_ = jnp.asarray(lam, dtype=cdt)
            if p == 0:
                ok, integ = res.lib("construct", cls, dt, L_, key=key)
            else:
                ok, integ = res.lib("construct", cls, dt, L_, nf, num_circle_points=M, circle_radius=radius, key=key)
            if not ok:
                continue
            leaves = [np.asarray(l) for l in jax.tree_util.tree_leaves(integ) if hasattr(l, "dtype")]
            res.true("coefficients_finite:" + sess, all(bool(np.all(np.isfinite(l))) for l in leaves), key=key + ":" + sess + ":coefficients", msg="non-finite coefficient array")
            want_c = np.complex128 if x64 else np.complex64
            res.true(
                "coefficient_dtype:" + sess,
                all(l.dtype in (want_c, np.float64 if x64 else np.float32, np.bool_) or not np.issubdtype(l.dtype, np.inexact) for l in leaves),
                key=key + ":" + sess + ":dtype",
                msg=str(sorted({str(l.dtype) for l in leaves})),
            )
            ok, out = res.lib("step_fourier", integ.step_fourier, jnp.asarray(U, dtype=cdt), key=key)
            if ok:
                out = np.asarray(out)
                res.true("step_finite:" + sess, bool(np.all(np.isfinite(out))), key=key + ":" + sess + ":step", msg="non-finite step of an O(1) state")
                res.true("step_dtype:" + sess, out.dtype == want_c, key=key + ":" + sess + ":dtype", msg=str(out.dtype))
                outs_a[sess] = out.astype(np.complex128)
            ok, out0 = res.lib("step_fourier_zero", integ.step_fourier, jnp.zeros((1, 12), dtype=cdt), key=key)
            if ok:
                out0 = np.asarray(out0)
                res.true("zero_state_finite:" + sess, bool(np.all(np.isfinite(out0))), key=key + ":" + sess + ":zero_state")
                if not case["forced"] or p == 0:
                    res.claim("zero_state_maps_to_zero:" + sess, float(np.max(np.abs(out0))) if np.all(np.isfinite(out0)) else float("inf"), 0.0, key=key + ":" + sess + ":zero_state")
    if "float32" in outs_a and "float64" in outs_a and np.all(np.isfinite(outs_a["float32"])) and np.all(np.isfinite(outs_a["float64"])):
        # single vs double precision, mode by mode (the nonlinearity acts per mode, Lipschitz constant <= 1.25), on the
        # modes whose nonlinear increment does not amplify: 1.25 * dt * |phi_1(z)| <= 1
        o32, o64 = outs_a["float32"][0], outs_a["float64"][0]
        with np.errstate(all="ignore"):
            ph1 = np.abs(orc.phi1(z))
        okm = (1.25 * dt * ph1 <= 1.0) & (z.real <= 0)
        if np.any(okm):
            nmax = 0.75 * np.maximum(np.abs(U[0]), np.abs(o64)) + abs(nfc)
            tol_m = K_TOL * (2.0 ** max(p, 1)) * EPS32 * (1 + np.abs(z.imag)) * (np.abs(U[0]) + np.abs(o64) + dt * ph1 * nmax)
            r_ = np.where(okm, np.abs(o32 - o64) / tol_m, 0.0)
            j_ = int(np.argmax(r_))
            res.claim("float32_step_agrees_with_float64_step", float(r_[j_]), 1.0, key=key + ":precision", msg="worst mode z=%s" % z[j_])
    return res


# ------------------------------------------------------------------ stepper level

STIFF = ["tiny", "moderate", "stiff"]


def b_strata(tier):
    ns = {1: [16, 17], 2: [6, 7], 3: [5, 6]}
    out = []
    i = 0
    for f in configs.ALL_FAMILIES:
        cls, dims = configs.family_info(f)
        for D in dims:
            i += 1
            if tier == "quick" and len(dims) == 3 and (i % 3) != 1:
                continue
            for si, sk in enumerate(STIFF):
                if tier == "quick" and (i + si) % 3 == 2:
                    continue
                orders = [(i + 2 * si) % 5] if tier == "quick" else [0, 1, 2, 3, 4]
                for o in orders:
                    out.append(dict(id="%s-D%d-%s-p%d" % (f, D, sk, o), fam=f, D=D, N=ns[D][i % 2], stiff=sk, order=o))
    return out


def c_strata(tier):
    """the stepper strata again, on extreme domain extents (weak-linear-part and moderate stiffness only)"""
    out = []
    for j, s_ in enumerate(x for x in b_strata("thorough") if x["stiff"] in ("tiny", "moderate") and x["order"] in (1, 2, 4)):
        if tier == "quick" and j % 24 != (0 if s_["stiff"] == "tiny" else 13):
            continue
        out.append(dict(s_, id=s_["id"] + "-extremeL", extreme_L=True))
    return out


def b_strategy(stratum, tier):
    f, D, N = stratum["fam"], stratum["D"], stratum["N"]
    zr = {"tiny": (1e-9, 1e-3), "moderate": (1e-2, 1e2), "stiff": (1e3, 1e12)}[stratum["stiff"]]
    if stratum.get("extreme_L"):
        # very large / very small boxes: wavenumber scales 2*pi/L far from one (precision-dependent thresholds,
        # (2 pi/L)^2 k^2 below float32 eps, overflow of kappa^4 in float32, ...)
        L = st.one_of(gens.log_floats(3e3, 1e7), gens.log_floats(3e3, 1e7), gens.log_floats(1e-3, 0.3))
    else:
        L = st.one_of(gens.st_L(0.5, 30.0), gens.st_L(0.5, 30.0), gens.log_floats(1e-2, 1e6))
    return st.fixed_dictionaries(
        dict(
            fam=st.just(f),
            stiff=st.just(stratum["stiff"]),
            spec=configs.st_spec(f, D, N, orders=(stratum["order"],), dt=st.just(1.0), contour=True, L=L),
            Z=gens.log_floats(*zr),
            seed=gens.st_seed(),
            amp=st.floats(0.1, 2.0).map(lambda x: float("%.3g" % x)),
        )
    )


def set_stiffness(spec, Z):
    """choose dt (or the coefficient scale of the normalized/difficulty classes) such that max|lambda dt| = Z,
    then bound growth"""
    D, N = spec["D"], spec["N"]
    L, _ = reg.eff_L_dt(spec)
    kap = 2 * math.pi / L * orc.rfft_wavenumbers(D, N)
    if spec["cls"] == "Wave":
        lmax = abs(model.full_kw(spec)["speed_of_sound"]) * float(np.max(np.sqrt((kap**2).sum(0))))
        if lmax == 0.0:  # speed_of_sound = 0: lambda = 0 for every mode, any dt
            return dict(spec)
        return dict(spec, dt=float("%.6g" % (Z / lmax)))
    lam = model.symbol(dict(spec, dt=1.0), kap)
    lmax = float(np.max(np.abs(lam))) or 1.0
    if spec["cls"] in reg.NO_L_DT:
        # lambda is linear in the normalized coefficients: the given ones correspond to "dt = 1"
        fac = Z / lmax
        g = float(np.max(lam.real)) * fac
        if g > 5:
            fac *= 5 / g
        kw = dict(spec["kw"])
        for k_ in ("normalized_linear_coefficients", "linear_difficulties"):
            if k_ in kw:
                kw[k_] = [float(x * fac) for x in kw[k_]]
        if "difficulty" in kw:
            kw["difficulty"] = float(kw["difficulty"] * fac)
        for k_ in ("normalized_convection_scale", "convection_difficulty", "normalized_gradient_norm_scale", "gradient_norm_difficulty"):
            if k_ in kw:
                kw[k_] = float(kw[k_] * fac)
        for k_ in ("normalized_polynomial_coefficients", "polynomial_difficulties", "normalized_nonlinear_coefficients", "nonlinear_difficulties"):
            if k_ in kw:
                kw[k_] = [float(x * fac) for x in kw[k_]]
        return dict(spec, kw=kw)
    dt = Z / lmax
    g = float(np.max(lam.real)) * dt
    if g > 5:
        dt *= 5 / g
    return dict(spec, dt=float("%.6g" % dt))


LINEAR_PARAMS = ("diffusivity", "dispersivity", "hyper_diffusivity", "second_order_scale", "fourth_order_scale", "drag", "velocity",
                 "speed_of_sound", "diffusivity_1", "diffusivity_2", "linear_coefficients", "normalized_linear_coefficients",
                 "linear_difficulties", "difficulty")  # fmt: skip


def set_weak_linear_part(spec, Z, dt=0.01):
    """'tiny' stratum: keep a moderate dt (so that the nonlinear contribution dt*N matters) and scale the
    linear coefficients down until max|lambda dt| ~ Z (weak dissipation / dispersion)"""
    D, N = spec["D"], spec["N"]
    sp = dict(spec, kw=dict(spec["kw"]))
    if sp["cls"] not in reg.NO_L_DT:
        sp["dt"] = dt
    L, dte = reg.eff_L_dt(sp)
    kap = 2 * math.pi / L * orc.rfft_wavenumbers(D, N)
    for _ in range(3):
        if sp["cls"] == "Wave":
            lmax = abs(model.full_kw(sp)["speed_of_sound"]) * float(np.max(np.sqrt((kap**2).sum(0))))
        else:
            lmax = float(np.max(np.abs(model.symbol(sp, kap))))
        cur = lmax * abs(dte)
        if cur <= Z * 1.001 or cur == 0:
            break
        fac = Z / cur
        kw = dict(model.full_kw(sp))
        new = dict(sp["kw"])
        for name in LINEAR_PARAMS:
            if name in kw and (name in sp["kw"] or name in ("diffusivity", "dispersivity", "hyper_diffusivity", "second_order_scale", "fourth_order_scale", "drag", "velocity", "speed_of_sound", "diffusivity_1", "diffusivity_2")):
                v = kw[name]
                new[name] = [float(x * fac) for x in v] if isinstance(v, (list, tuple)) else float(v * fac)
        sp = dict(sp, kw=new)
    return sp


def b_check(case):
    res = R()
    if case["stiff"] == "tiny":
        spec = set_weak_linear_part(case["spec"], case["Z"])
    else:
        spec = set_stiffness(case["spec"], case["Z"])
    D, N = spec["D"], spec["N"]
    fam = case["fam"]
    key = "C19:stepper:%s" % spec["cls"]
    p = model.order_of(spec)
    C = model.num_channels(spec)
    res.tag("B", fam, "D%d" % D, "order%d" % p, case["stiff"])
    u = orc.white(case["seed"], (C,) + (N,) * D, case["amp"])
    if spec["cls"] in ("NavierStokesVelocity", "KolmogorovFlowVelocity"):
        u = orc.leray_np(orc.remove_nyquist(u))
    L, dt = reg.eff_L_dt(spec)
    kap = 2 * math.pi / L * orc.rfft_wavenumbers(D, N)
    if spec["cls"] == "Wave":
        lam = 1j * abs(model.full_kw(spec)["speed_of_sound"]) * np.sqrt((kap**2).sum(0))[None]
    else:
        lam = model.symbol(spec, kap)
    z = lam * dt
    zmax = float(np.max(np.abs(z)))
    res.nontrivial = bool(zmax >= 1e3 or zmax < 1e-3)
    # conditioning of the nonlinear part: one ETDRK step amplifies input perturbations by about
    # (1 + dt*Lip(N))^p; for half of the cases the state is scaled down so that dt*|N(u)| <= 0.3*|u|
    nf_np = model.np_nonlin(model.nonlinear_fun(spec)) if p > 0 else None

    def nl_ratio(v):
        if nf_np is None:
            return 0.0
        Gv = float(np.max(np.abs(orc.irfftn(nf_np(orc.rfftn(v)), N))))
        return abs(dt) * Gv / (float(np.max(np.abs(v))) + 1e-300)

    r0 = nl_ratio(u)
    if case["seed"] % 2 == 1 and r0 > 0.3:
        for _ in range(6):
            u = u * min(1.0, 0.3 / max(nl_ratio(u), 1e-300))
            if nl_ratio(u) <= 0.3:
                break
        res.tag("state_scaled_for_conditioning")
    r0 = nl_ratio(u)
    # modes with Re(lambda dt) > 0 (outside the property's finiteness clause, growth capped at e^5) amplify the stage
    # values before the nonlinear term is applied to them again: the finiteness domain is decided on the amplified state
    gmax = float(np.max(z.real))
    r_fin = max(r0, nl_ratio(u * math.exp(min(max(gmax, 0.0), 50.0)))) if gmax > 0 else r0
    cond = (1.0 + 3.0 * min(r0, 1e30)) ** max(p, 0)
    outs = {}
    zero_outs = {}
    for x64 in (False, True):
        sess = "float64" if x64 else "float32"
        with jax.enable_x64(x64):
            fdt = jnp.float64 if x64 else jnp.float32
            ok, S = res.lib("construct", reg.build, spec, key=key + ":" + sess)
            if not ok:
                continue
            leaves = [l for l in jax.tree_util.tree_leaves(S) if hasattr(l, "dtype")]
            bad = sorted({str(l.dtype) for l in leaves if np.issubdtype(np.dtype(l.dtype), np.inexact) and np.dtype(l.dtype).itemsize // (2 if np.issubdtype(np.dtype(l.dtype), np.complexfloating) else 1) != (8 if x64 else 4)})
            res.true("stored_arrays_carry_session_precision:" + sess, not bad, key=key + ":" + sess + ":leaf_dtype", msg=str(bad))
            res.true("stored_arrays_finite:" + sess, all(bool(np.all(np.isfinite(np.asarray(l)))) for l in leaves if np.issubdtype(np.dtype(l.dtype), np.inexact)), key=key + ":" + sess + ":coefficients")
            ok, out = res.lib("call", S, jnp.asarray(u, dtype=fdt), key=key + ":" + sess)
            if ok:
                res.true("output_dtype_is_session_default:" + sess, out.dtype == fdt, key=key + ":" + sess + ":dtype", msg=str(out.dtype))
                out = np.asarray(out)
                if r_fin <= 0.5:
                    res.true("output_finite:" + sess, bool(np.all(np.isfinite(out))), key=key + ":" + sess + ":finite")
                else:
                    # dt*|N(u)| > 10 |u|: the polynomial nonlinearity itself can overflow single precision
                    res.tag("nonlinear_blow_up_regime:output_finiteness_not_asserted")
                outs[sess] = out
            if x64:
                # a single-precision input array (a float32 data set, a state created before x64 was enabled) must not
                # drag the result down: "results carry the session's default floating dtype"
                ok, o32in = res.lib("call_float32_input", S, jnp.asarray(u, dtype=jnp.float32), key=key + ":" + sess + ":float32_input")
                if ok:
                    res.true("output_dtype_is_session_default:float64_session_float32_input", o32in.dtype == jnp.float64, key=key + ":" + sess + ":float32_input:dtype", msg=str(o32in.dtype))
            ok, o0 = res.lib("call_zero", S, jnp.zeros(u.shape, dtype=fdt), key=key + ":" + sess)
            if ok:
                o0 = np.asarray(o0)
                f0 = float(np.max(np.abs(orc.irfftn(nf_np(orc.rfftn(np.zeros(u.shape))), N)))) if nf_np is not None else 0.0
                if abs(dt) * f0 <= 0.5:
                    res.true("zero_state_finite:" + sess, bool(np.all(np.isfinite(o0))), key=key + ":" + sess + ":zero_state")
                zero_outs[sess] = o0
    forced = spec["cls"] in ("KolmogorovFlowVorticity", "KolmogorovFlowVelocity") or (spec["cls"] == "GeneralVorticityConvectionStepper" and model.full_kw(spec).get("injection_scale", 0.0) != 0.0)
    kwf = model.full_kw(spec)
    for name in ("polynomial_coefficients", "normalized_polynomial_coefficients", "polynomial_difficulties"):
        if name in kwf and len(kwf[name]) > 0 and kwf[name][0] != 0:
            forced = True
    if spec["cls"] == "GrayScott":
        forced = True  # feed term f(1-u) is non-zero at u = 0
    if not forced:
        for sess, o0 in zero_outs.items():
            res.claim("zero_state_maps_to_zero:" + sess, float(np.max(np.abs(o0))) if np.all(np.isfinite(o0)) else float("inf"), 0.0, key=key + ":" + sess + ":zero_state")
    if "float32" in outs and "float64" in outs and np.all(np.isfinite(outs["float64"])) and np.all(np.isfinite(outs["float32"])):
        o32, o64 = outs["float32"].astype(np.float64), outs["float64"]
        nf = model.np_nonlin(model.nonlinear_fun(spec)) if p > 0 else None
        G = float(np.max(np.abs(orc.irfftn(nf(orc.rfftn(u)), N)))) if nf is not None else 0.0
        scale = max(float(np.max(np.abs(u))), float(np.max(np.abs(o64)))) + abs(dt) * G
        with np.errstate(over="ignore"):
            growth = float(np.max(np.maximum(1.0, np.exp(np.minimum(z.real, 50)))))
        phase = 1.0 + float(np.max(np.abs(z.imag)))
        tol = K_TOL * EPS32 * math.sqrt(N**D) * phase * growth * scale * cond
        pkey = key + ":precision"
        if spec["cls"] == "Wave":
            ck = abs(model.full_kw(spec)["speed_of_sound"]) * 2 * math.pi / L
            if ck < 0.05:
                # slow modes (c*kappa << 1): separate root-cause key, see known_findings.json
                pkey = key + ":precision:slow_modes"
                res.tag("wave_slow_modes")
        res.claim("float32_agrees_with_float64", float(np.max(np.abs(o32 - o64))), tol, key=pkey)
        res.tag("well_conditioned" if cond < 10 else "ill_conditioned_nonlinear_step")
        res.info["ratio_without_phase"] = float(np.max(np.abs(o32 - o64))) / (EPS32 * math.sqrt(N**D) * scale)
        # float64 against the independent reference (so that "both sessions silently run in float32" cannot pass)
        if spec["cls"] != "Wave":
            want, _ = model.model_step(spec, u)
            tol64 = 1e-9 * (1 + 1e-3 * zmax) * growth * scale * cond
            res.claim("float64_agrees_with_reference_model", float(np.max(np.abs(o64 - want))), tol64, key=key + ":float64_reference")
    return res


# ------------------------------------------------------------------ x64 enabled AFTER the library was imported

LATE_SCRIPT = r"""
import json, sys
import jax
assert not jax.config.jax_enable_x64, "subprocess must start in the default (float32) session"
import exponax  # imported while the session is still single precision
jax.config.update("jax_enable_x64", True)
from pbt.props import c02
cases = json.load(open(sys.argv[1]))
out = []
for c in cases:
    r = c02.a_check(c)
    out.append(dict(fails=r.fails, margins=r.margins, nclaims=dict(r.nclaims)))
json.dump(out, open(sys.argv[2], "w"))
"""


def late_strata(tier):
    import pbt.props.c02 as c02

    sel = [s_ for s_ in c02.a_strata(tier) if s_["order"] >= 1 and s_["z"] in ("real_neg", "imag", "left_half", "special", "mixed")]
    if tier == "quick":
        sel = sel[::9]
    return [dict(s_, id=s_["id"] + "-late_x64") for s_ in sel]


def late_strategy(stratum, tier):
    import pbt.props.c02 as c02

    return st.lists(c02.a_strategy(stratum, tier), min_size=3, max_size=3).map(lambda cs: dict(cases=cs))


def late_check(case):
    """'float64 once x64 is enabled': the flag may be switched on after `import exponax` (the usual order in scripts and
    notebooks).  A fresh interpreter imports exponax in the default session, enables x64 and evaluates the C02
    integrator comparison (exact phi functions, tolerance 1e-10): a constant or table created at import time in single
    precision shows up as a 1e-8 error although every dtype reads float64."""
    import subprocess
    import sys
    import tempfile

    res = R()
    res.nontrivial = True
    res.tag("late_x64")
    env = {k: v for k, v in os.environ.items() if k != "JAX_ENABLE_X64"}
    with tempfile.TemporaryDirectory() as td:
        fin, fout = os.path.join(td, "in.json"), os.path.join(td, "out.json")
        json.dump(case["cases"], open(fin, "w"))
        pr = subprocess.run([sys.executable, "-c", LATE_SCRIPT, fin, fout], env=env, capture_output=True, text=True, timeout=1800)
        if pr.returncode != 0 or not os.path.exists(fout):
            raise RuntimeError("late-x64 subprocess failed (harness error): " + pr.stderr[-2000:])
        outs = json.load(open(fout))
    for o in outs:
        for cid, n_ in o["nclaims"].items():
            res.nclaims["late_x64:" + cid] += n_
        for cid, m_ in o["margins"].items():
            if m_ > res.margins.get("late_x64:" + cid, 0.0):
                res.margins["late_x64:" + cid] = m_
            res.margins.setdefault("late_x64:" + cid, 0.0)
        for f_ in o["fails"]:
            res.fails.append(dict(claim="late_x64:" + f_["claim"], key="C19:late_x64:" + f_["key"], resid=f_["resid"], tol=f_["tol"], msg=f_["msg"]))
    return res


SUBS = [
    Sub("integrator_stiffness", a_check, strata=a_strata, strategy=a_strategy, n=(6, 40)),
    Sub("stepper_precision", b_check, strata=b_strata, strategy=b_strategy, n=(1, 1)),
    Sub("extreme_domain_precision", b_check, strata=c_strata, strategy=b_strategy, n=(2, 1)),
    Sub("late_x64", late_check, strata=late_strata, strategy=late_strategy, n=(1, 2)),
]
