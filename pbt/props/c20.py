"""C20 - malformed states and unsupported configurations are rejected, not accepted."""

from __future__ import annotations

import contextlib
import inspect
import io
import math

import numpy as np
from hypothesis import strategies as st

import equinox as eqx
import jax
import jax.numpy as jnp

import exponax as ex
from exponax.ic._gaussian_blob import GaussianBlob
from exponax.stepper.reaction._gray_scott import GrayScottNonlinearFun
from pbt import gens, oracles as orc, registry as reg
from pbt.core import R, Sub

RULE = (
    "Class sweep enumerated completely: every stepper class exported by exponax.stepper(.generic/.reaction) "
    "(enumerated from __all__ at run time) x every admissible D x 12 malformed-shape kinds (one channel "
    "more/less, zero channels, extra leading batch axis, missing spatial axis, missing channel axis, each "
    "single axis N+1, all axes N-1, unequal axis lengths incl. size-1 and half-size leading axes, transposed "
    "channel/space) through stepper.__call__, RepeatedStepper and (spatial part) Poisson: each must raise "
    "ValueError; the well-formed state must be accepted and return the same shape and dtype. Hypothesis "
    "additionally draws arbitrary wrong shapes (rank 1-5). Every documented constructor / argument "
    "restriction is enumerated with the documented exception type and, where one exists, its neighbouring "
    "valid call. Non-trivial: every case (each is a distinct class x D x kind or restriction). Malformed states also through RepeatedStepper(n=1), eqx.filter_jit, ex.rollout and jax.vmap."
)
ASSUMPTIONS = [
    "float64 session",
    "classes are constructed with their default parameters (the shape check does not depend on them)",
    "not asserted because undocumented: unequal axis lengths passed to ex.fft / ex.derivative / map_between_resolutions, D = 4, N = 0, Leray with C != D, ForcedStepper shapes",
]

N0 = 6


def construct(name, D):
    cls = reg.get_class(name)
    with contextlib.redirect_stdout(io.StringIO()):
        if name in reg.NO_L_DT:
            return cls(D, N0)
        return cls(D, 3.0, N0, 0.1)


def admissible_dims(name):
    out = []
    for D in (1, 2, 3):
        try:
            construct(name, D)
            out.append(D)
        except ValueError:
            pass
    return out


def bad_shapes(C, D, N):
    good = (C,) + (N,) * D
    kinds = {
        "channel_plus_1": (C + 1,) + (N,) * D,
        "channel_minus_1": (C - 1,) + (N,) * D,
        "zero_channels": (0,) + (N,) * D,
        "extra_batch_axis": (1,) + good,
        "missing_spatial_axis": (C,) + (N,) * (D - 1),
        "missing_channel_axis": (N,) * D,
        "all_axes_N_minus_1": (C,) + (N - 1,) * D,
        "all_axes_N_plus_1": (C,) + (N + 1,) * D,
        "extra_spatial_axis": (C,) + (N,) * (D + 1),
    }
    for a in range(D):
        s = [N] * D
        s[a] = N + 1
        kinds["axis%d_N_plus_1" % a] = (C,) + tuple(s)
        s = [N] * D
        s[a] = 1
        kinds["axis%d_size_1" % a] = (C,) + tuple(s)
        s = [N] * D
        s[a] = N // 2
        kinds["axis%d_half" % a] = (C,) + tuple(s)
        s = [N] * D
        s[a] = 2 * N
        kinds["axis%d_double" % a] = (C,) + tuple(s)
    if C != N:
        kinds["channel_last"] = (N,) * D + (C,)
    return {k: v for k, v in kinds.items() if v != good}


def sweep_strata(tier):
    return [dict(id=name, cls=name) for name in reg.exported_stepper_classes()]


def sweep_cases(stratum, tier):
    name = stratum["cls"]
    for D in admissible_dims(name):
        S = construct(name, D)
        C = S.num_channels
        yield dict(cls=name, D=D, kind="well_formed", shape=[C] + [N0] * D)
        for k, shp in bad_shapes(C, D, N0).items():
            yield dict(cls=name, D=D, kind=k, shape=list(shp))


_CACHE = {}


def get_stepper(name, D):
    if (name, D) not in _CACHE:
        _CACHE[(name, D)] = construct(name, D)
    return _CACHE[(name, D)]


def expect_raises(res, cid, fn, exc, key):
    try:
        out = fn()
        res.true(cid, False, key=key, msg="accepted (returned %s)" % (getattr(out, "shape", type(out).__name__),))
    except exc:
        res.true(cid, True, key=key)
    except Exception as e:  # noqa: BLE001
        res.true(cid, False, key=key + ":wrong_exception", msg="%s instead of %s: %s" % (type(e).__name__, exc.__name__, str(e)[:120]))


def sweep_check(case):
    res = R()
    name, D, kind, shape = case["cls"], case["D"], case["kind"], tuple(case["shape"])
    res.nontrivial = True
    res.tag(name, "D%d" % D, kind if not kind.startswith("axis") else "axisK_" + kind.split("_", 1)[1])
    S = get_stepper(name, D)
    u = jnp.asarray(orc.white(1, shape, 0.1) if all(s > 0 for s in shape) else np.zeros(shape))
    RS = ex.RepeatedStepper(S, 2)
    key = "C20:shape:%s" % kind.split("_")[0] if kind.startswith("axis") else "C20:shape:%s" % kind
    if kind == "well_formed":
        for tag, f in (("stepper", S), ("repeated", RS)):
            ok, out = res.lib("accepts_well_formed:" + tag, f, u, key="C20:accept:" + name)
            if ok:
                res.true("well_formed:same_shape:" + tag, tuple(out.shape) == shape, key="C20:accept:" + name, msg=str(out.shape))
                res.true("well_formed:same_dtype:" + tag, out.dtype == u.dtype, key="C20:accept:" + name, msg=str(out.dtype))
        return res
    expect_raises(res, "stepper_rejects_malformed_state", lambda: S(u), ValueError, key + ":stepper")
    expect_raises(res, "repeated_stepper_rejects_malformed_state", lambda: RS(u), ValueError, key + ":repeated")
    # a single sub-step is still a RepeatedStepper; compiled / mapped / scanned entry points see tracers, whose shapes
    # are as static as those of concrete arrays
    expect_raises(res, "repeated_stepper_1_rejects_malformed_state", lambda: ex.RepeatedStepper(S, 1)(u), ValueError, key + ":repeated1")
    expect_raises(res, "jit_stepper_rejects_malformed_state", lambda: eqx.filter_jit(S)(u), ValueError, key + ":jit")
    expect_raises(res, "rollout_rejects_malformed_state", lambda: ex.rollout(S, 2)(u), ValueError, key + ":rollout")
    expect_raises(res, "vmap_stepper_rejects_malformed_state", lambda: jax.vmap(S)(jnp.stack([u, u])), ValueError, key + ":vmap")
    return res


# ---------------------------------------------------------------- Poisson


def poisson_strata(tier):
    return [dict(id="D%d" % D, D=D) for D in (1, 2, 3)]


def poisson_cases(stratum, tier):
    D = stratum["D"]
    for C in (1, 2):
        yield dict(D=D, C=C, kind="well_formed", shape=[C] + [N0] * D)
        for k, shp in bad_shapes(C, D, N0).items():
            if k in ("channel_plus_1", "channel_minus_1", "zero_channels"):
                continue  # any channel count is allowed
            if k == "channel_last":
                continue
            yield dict(D=D, C=C, kind=k, shape=list(shp))


def poisson_check(case):
    res = R()
    D, kind, shape = case["D"], case["kind"], tuple(case["shape"])
    res.nontrivial = True
    res.tag("Poisson", "D%d" % D, kind)
    P = ex.poisson.Poisson(D, 3.0, N0)
    f = jnp.asarray(orc.white(2, shape, 1.0) if all(s > 0 for s in shape) else np.zeros(shape))
    if kind == "well_formed":
        ok, out = res.lib("poisson_accepts_well_formed", P, f, key="C20:accept:Poisson")
        if ok:
            res.true("poisson:same_shape", tuple(out.shape) == shape, key="C20:accept:Poisson")
        return res
    expect_raises(res, "poisson_rejects_malformed_rhs", lambda: P(f), ValueError, "C20:shape:Poisson:" + kind)
    return res


# ---------------------------------------------------------------- generated wrong shapes


def gen_strata(tier):
    names = reg.exported_stepper_classes()
    return [dict(id=n, cls=n) for n in names]


def gen_strategy(stratum, tier):
    return st.fixed_dictionaries(
        dict(cls=st.just(stratum["cls"]), dsel=st.integers(0, 2), shape=st.lists(st.integers(0, 9), min_size=1, max_size=5), seed=gens.st_seed())
    )


def gen_check(case):
    res = R()
    name = case["cls"]
    dims = admissible_dims(name)
    D = dims[case["dsel"] % len(dims)]
    S = get_stepper(name, D)
    good = (S.num_channels,) + (N0,) * D
    shape = tuple(case["shape"])
    res.tag(name, "D%d" % D, "rank%d" % len(shape))
    res.nontrivial = shape != good
    u = jnp.asarray(orc.white(case["seed"], shape, 0.1) if all(s > 0 for s in shape) else np.zeros(shape))
    if shape == good:
        ok, out = res.lib("accepts_well_formed", S, u, key="C20:accept:" + name)
        if ok:
            res.true("well_formed:same_shape", tuple(out.shape) == good, key="C20:accept:" + name)
        return res
    expect_raises(res, "stepper_rejects_generated_wrong_shape", lambda: S(u), ValueError, "C20:shape:generated")
    return res


# ---------------------------------------------------------------- documented restrictions


def restrictions():
    E = ex
    NF = ex.nonlin_fun
    dop = lambda D: ex.spectral.build_derivative_operator(D, 3.0, N0)  # noqa: E731
    out = []

    def add(rid, bad, exc=ValueError, good=None):
        out.append((rid, bad, exc, good))

    for cname, okD in (("NavierStokesVorticity", 2), ("KolmogorovFlowVorticity", 2), ("NavierStokesVelocity", 3), ("KolmogorovFlowVelocity", 3), ("GeneralVorticityConvectionStepper", 2)):
        for D in (1, 2, 3):
            if D != okD:
                add("dimension_guard:%s:D%d" % (cname, D), (lambda cname=cname, D=D: construct(cname, D)), ValueError, (lambda cname=cname, okD=okD: construct(cname, okD)))
    for D in (1, 3):
        add("dimension_guard:VorticityConvection2d:D%d" % D, lambda D=D: NF.VorticityConvection2d(D, N0, derivative_operator=dop(D), dealiasing_fraction=2 / 3), ValueError, lambda: NF.VorticityConvection2d(2, N0, derivative_operator=dop(2), dealiasing_fraction=2 / 3))
        add("dimension_guard:VorticityConvection2dKolmogorov:D%d" % D, lambda D=D: NF.VorticityConvection2dKolmogorov(D, N0, derivative_operator=dop(D), dealiasing_fraction=2 / 3, injection_mode=1))
    for D in (1, 2):
        add("dimension_guard:ProjectedConvection3d:D%d" % D, lambda D=D: NF.ProjectedConvection3d(D, N0, derivative_operator=dop(D)), ValueError, lambda: NF.ProjectedConvection3d(3, N0, derivative_operator=dop(3)))
        add("dimension_guard:ProjectedConvection3dKolmogorov:D%d" % D, lambda D=D: NF.ProjectedConvection3dKolmogorov(D, N0, derivative_operator=dop(D), dealiasing_fraction=2 / 3, injection_mode=1))
    for D in (2, 3):
        add("dimension_guard:RandomSineWaves1d:D%d" % D, lambda D=D: ex.ic.RandomSineWaves1d(D), ValueError, lambda: ex.ic.RandomSineWaves1d(1))
        add("dimension_guard:SineWaves1d_on_grid:D%d" % D, lambda D=D: ex.ic.SineWaves1d(1.0, (1.0,), (1,), (0.0,))(ex.make_grid(D, 1.0, N0)), ValueError, lambda: ex.ic.SineWaves1d(1.0, (1.0,), (1,), (0.0,))(ex.make_grid(1, 1.0, N0)))

    class BadOperator(ex.BaseStepper):
        def __init__(self, shape_kind):
            self.shape_kind = shape_kind
            super().__init__(2, 1.0, N0, 0.1, num_channels=2, order=0)

        shape_kind: str

        def _build_linear_operator(self, derivative_operator):
            if self.shape_kind == "ok1":
                return jnp.zeros((1, N0, N0 // 2 + 1), dtype=complex)
            if self.shape_kind == "okC":
                return jnp.zeros((2, N0, N0 // 2 + 1), dtype=complex)
            if self.shape_kind == "three_channels":
                return jnp.zeros((3, N0, N0 // 2 + 1), dtype=complex)
            if self.shape_kind == "no_channel_axis":
                return jnp.zeros((N0, N0 // 2 + 1), dtype=complex)
            return jnp.zeros((1, N0, N0), dtype=complex)

        def _build_nonlinear_fun(self, derivative_operator):
            return ex.nonlin_fun.ZeroNonlinearFun(2, N0)

    for kind in ("three_channels", "no_channel_axis", "full_last_axis"):
        add("linear_operator_shape:%s" % kind, lambda kind=kind: BadOperator(kind), ValueError, lambda: (BadOperator("ok1"), BadOperator("okC")))
    for order in (1, 3, 5):
        add("laplace_operator_odd_order:%d" % order, lambda order=order: ex.spectral.build_laplace_operator(dop(2), order=order), ValueError, lambda: ex.spectral.build_laplace_operator(dop(2), order=2))
    for order in (0, 2, 4):
        add("gradient_inner_product_even_order:%d" % order, lambda order=order: ex.spectral.build_gradient_inner_product_operator(dop(2), jnp.ones(2), order=order), ValueError, lambda: ex.spectral.build_gradient_inner_product_operator(dop(2), jnp.ones(2), order=1))
    for n in (1, 3):
        add("gradient_inner_product_velocity_length:%d" % n, lambda n=n: ex.spectral.build_gradient_inner_product_operator(dop(2), jnp.ones(n), order=1))
    add("ifft_1d_without_num_points", lambda: ex.ifft(jnp.zeros((1, 4), dtype=complex)), ValueError, lambda: ex.ifft(jnp.zeros((1, 4), dtype=complex), num_points=6))
    add("scaling_array_unknown_mode", lambda: ex.spectral.build_scaling_array(1, N0, mode="nonsense"), ValueError, lambda: ex.spectral.build_scaling_array(1, N0, mode="reconstruction"))
    for C in (1, 3):
        add("make_incompressible_channels:%d" % C, lambda C=C: ex.spectral.make_incompressible(jnp.ones((C, N0, N0))), ValueError, lambda: ex.spectral.make_incompressible(jnp.ones((2, N0, N0))))
        for cons in (False, True):
            add(
                "multichannel_convection_channels:%d:%s" % (C, cons),
                lambda C=C, cons=cons: NF.ConvectionNonlinearFun(2, N0, derivative_operator=dop(2), conservative=cons)(jnp.ones((C, N0, N0 // 2 + 1), dtype=complex)),
                ValueError,
                lambda cons=cons: NF.ConvectionNonlinearFun(2, N0, derivative_operator=dop(2), conservative=cons)(jnp.ones((2, N0, N0 // 2 + 1), dtype=complex)),
            )
        add("gray_scott_channels:%d" % C, lambda C=C: GrayScottNonlinearFun(1, N0, dealiasing_fraction=0.5, feed_rate=0.04, kill_rate=0.06)(jnp.ones((C, N0 // 2 + 1), dtype=complex)), ValueError, lambda: GrayScottNonlinearFun(1, N0, dealiasing_fraction=0.5, feed_rate=0.04, kill_rate=0.06)(jnp.ones((2, N0 // 2 + 1), dtype=complex)))
    for n in (2, 4):
        add("general_nonlinear_fun_three_scales:%d" % n, lambda n=n: NF.GeneralNonlinearFun(1, N0, derivative_operator=dop(1), dealiasing_fraction=2 / 3, scale_list=(0.1,) * n), ValueError, lambda: NF.GeneralNonlinearFun(1, N0, derivative_operator=dop(1), dealiasing_fraction=2 / 3, scale_list=(0.1,) * 3))
        add("general_nonlinear_stepper_three_coefficients:%d" % n, lambda n=n: ex.stepper.generic.GeneralNonlinearStepper(1, 1.0, N0, 0.1, nonlinear_coefficients=(0.1,) * n))
    add("dealias_without_mask", lambda: NF.ZeroNonlinearFun(1, N0).dealias(jnp.ones((1, N0 // 2 + 1), dtype=complex)), ValueError, lambda: NF.PolynomialNonlinearFun(1, N0, dealiasing_fraction=2 / 3, coefficients=(0.0, 1.0)).dealias(jnp.ones((1, N0 // 2 + 1), dtype=complex)))
    I = ex.ic
    for gname, mk in (
        ("RandomTruncatedFourierSeries", lambda z, s_, m_: I.RandomTruncatedFourierSeries(1, offset_range=(0.0, 0.0) if z else (1.0, 1.0), std_one=s_, max_one=m_)),
        ("GaussianRandomField", lambda z, s_, m_: I.GaussianRandomField(1, zero_mean=z, std_one=s_, max_one=m_)),
        ("DiffusedNoise", lambda z, s_, m_: I.DiffusedNoise(1, zero_mean=z, std_one=s_, max_one=m_)),
        ("RandomDiscontinuities", lambda z, s_, m_: I.RandomDiscontinuities(1, zero_mean=z, std_one=s_, max_one=m_)),
        ("Discontinuities", lambda z, s_, m_: I.Discontinuities((), zero_mean=z, std_one=s_, max_one=m_)),
        ("RandomSineWaves1d", lambda z, s_, m_: I.RandomSineWaves1d(1, offset_range=(0.0, 0.0) if z else (1.0, 1.0), std_one=s_, max_one=m_)),
        ("SineWaves1d", lambda z, s_, m_: I.SineWaves1d(1.0, (1.0,), (1,), (0.0,), offset=0.0 if z else 1.0, std_one=s_, max_one=m_)),
    ):
        add("ic_options:%s:no_zero_mean_with_std_one" % gname, lambda mk=mk: mk(False, True, False), ValueError, lambda mk=mk: (mk(True, True, False), mk(False, False, True), mk(True, False, False)))
        add("ic_options:%s:std_one_and_max_one" % gname, lambda mk=mk: mk(True, True, True))
    for rng_ in ((-1.0, 1.0), (-0.5, 0.5), (0.0, 1.0), (-2.0, 0.0), (1e-3, 1e-3)):
        add("ic_options:RandomTruncatedFourierSeries:offset_range_%s_with_std_one" % (rng_,), lambda rng_=rng_: I.RandomTruncatedFourierSeries(2, offset_range=rng_, std_one=True), ValueError, lambda rng_=rng_: I.RandomTruncatedFourierSeries(2, offset_range=rng_, max_one=True))
        add("ic_options:RandomSineWaves1d:offset_range_%s_with_std_one" % (rng_,), lambda rng_=rng_: I.RandomSineWaves1d(1, offset_range=rng_, std_one=True), ValueError, lambda rng_=rng_: I.RandomSineWaves1d(1, offset_range=rng_, max_one=True))
    # the same restrictions with Python ints (a plain 1 is as much a non-zero offset as 1.0)
    for off in (1, -2, 3):
        add("ic_options:SineWaves1d:int_offset_%d_with_std_one" % off, lambda off=off: I.SineWaves1d(1.0, (1.0,), (1,), (0.0,), offset=off, std_one=True), ValueError,
            lambda off=off: (I.SineWaves1d(1.0, (1.0,), (1,), (0.0,), offset=off, max_one=True), I.SineWaves1d(1.0, (1.0,), (1,), (0.0,), offset=0, std_one=True)))  # fmt: skip
    for rng_ in ((1, 1), (0, 1), (-1, 1), (-3, 0)):
        add("ic_options:RandomTruncatedFourierSeries:int_offset_range_%s_with_std_one" % (rng_,), lambda rng_=rng_: I.RandomTruncatedFourierSeries(1, offset_range=rng_, std_one=True), ValueError, lambda rng_=rng_: (I.RandomTruncatedFourierSeries(1, offset_range=rng_, max_one=True), I.RandomTruncatedFourierSeries(1, offset_range=(0, 0), std_one=True)))
        add("ic_options:RandomSineWaves1d:int_offset_range_%s_with_std_one" % (rng_,), lambda rng_=rng_: I.RandomSineWaves1d(1, offset_range=rng_, std_one=True), ValueError, lambda rng_=rng_: (I.RandomSineWaves1d(1, offset_range=rng_, max_one=True), I.RandomSineWaves1d(1, offset_range=(0, 0), std_one=True)))
    add("sine_waves_mismatched_lengths", lambda: I.SineWaves1d(1.0, (1.0, 2.0), (1,), (0.0,)))
    add("sine_waves_mismatched_phases", lambda: I.SineWaves1d(1.0, (1.0,), (1,), (0.0, 1.0)))
    add("gaussian_blob_wrong_coordinates", lambda: GaussianBlob(jnp.ones(2) * 0.5, jnp.eye(2) * 0.1)(ex.make_grid(3, 1.0, N0)), ValueError, lambda: GaussianBlob(jnp.ones(2) * 0.5, jnp.eye(2) * 0.1)(ex.make_grid(2, 1.0, N0)))
    M = ex.metrics
    u1 = jnp.ones((1, N0))
    for mode in ("normalized", "symmetric"):
        add("spatial_norm_%s_without_reference" % mode, lambda mode=mode: M.spatial_norm(u1, None, mode=mode), ValueError, lambda mode=mode: M.spatial_norm(u1, 2 * u1, mode=mode))
    add("fourier_norm_normalized_without_reference", lambda: M.fourier_norm(u1, None, mode="normalized"), ValueError, lambda: M.fourier_norm(u1, 2 * u1, mode="normalized"))
    for fn in ("nMAE", "nMSE", "nRMSE", "sMAE", "sMSE", "sRMSE", "fourier_nMAE", "fourier_nMSE", "fourier_nRMSE", "H1_nMAE", "H1_nMSE", "H1_nRMSE"):
        add("metric_%s_without_reference" % fn, lambda fn=fn: getattr(M, fn)(u1, None), ValueError, lambda fn=fn: getattr(M, fn)(u1, 2 * u1))
    trj = jnp.zeros((4, 1, N0))
    add("stack_sub_trajectories_too_long", lambda: ex.stack_sub_trajectories(trj, 5), ValueError, lambda: ex.stack_sub_trajectories(trj, 4))
    add("stack_sub_trajectories_ragged", lambda: ex.stack_sub_trajectories((trj, trj[:3]), 2), ValueError, lambda: ex.stack_sub_trajectories((trj, trj), 2))
    for order in (-1, 5, 7):
        add("etdrk_order_out_of_range:%d" % order, lambda order=order: ex.stepper.Burgers(1, 1.0, N0, 0.1, order=order), NotImplementedError, lambda: [ex.stepper.Burgers(1, 1.0, N0, 0.1, order=o) for o in (0, 4)])
    return out


_RESTR = None


def restr_strata(tier):
    return [dict(id="restrictions")]


def restr_cases(stratum, tier):
    global _RESTR
    if _RESTR is None:
        _RESTR = restrictions()
    for rid, _, _, _ in _RESTR:
        yield dict(restriction=rid)


def restr_check(case):
    global _RESTR
    if _RESTR is None:
        _RESTR = restrictions()
    res = R()
    res.nontrivial = True
    rid = case["restriction"]
    res.tag("restriction:" + rid.split(":")[0])
    for r, bad, exc, good in _RESTR:
        if r == rid:
            with contextlib.redirect_stdout(io.StringIO()):
                expect_raises(res, "documented_restriction_raises", bad, exc, "C20:restriction:" + rid)
                if good is not None:
                    res.lib("neighbouring_valid_call_accepted", good, key="C20:restriction_valid:" + rid)
            return res
    raise KeyError(rid)


SUBS = [
    Sub("class_sweep", sweep_check, strata=sweep_strata, cases=sweep_cases, exhaustive=True),
    Sub("poisson", poisson_check, strata=poisson_strata, cases=poisson_cases, exhaustive=True),
    Sub("restrictions", restr_check, strata=restr_strata, cases=restr_cases, exhaustive=True),
    Sub("generated_shapes", gen_check, strata=gen_strata, strategy=gen_strategy, n=(8, 60)),
]
