"""C11 - dissipative and dispersive linear steppers never amplify any state."""

from __future__ import annotations

import math

import numpy as np
from hypothesis import strategies as st

import jax.numpy as jnp

import exponax as ex
from pbt import gens, oracles as orc, registry as reg
from pbt.core import R, Sub

RULE = (
    "Strata: every single-field linear stepper class/variant with a non-amplifying coefficient "
    "sub-strategy (nu >= 0 scalar / per-axis / PSD matrix incl. singular, zeta >= 0, any velocity / "
    "dispersivity sign, both mixing flags, generic/normalized/difficulty lists up to order 8 with a_0<=0, a_2>=0, a_4<=0, "
    "a_6>=0 and arbitrary odd coefficients) and Wave (c in R incl. 0) x D x odd/even N, plus 1D production-size grids (512..6000). Hypothesis draws white-noise states "
    "(Nyquist content included) or Nyquist-free ones, L, dt in [1e-6, 1e6], rollouts of up to 50 steps. "
    "Claims at EVERY step: ||u_{j+1}|| <= ||u_j|| (1+1e-12); strictly dissipative configurations (dt nu "
    "kappa_min^2 >= 1e-9 by construction): every non-constant stored mode shrinks strictly; advection / "
    "dispersion / odd-only generic: norm preserved to 1e-12 on odd N or Nyquist-free states (only "
    "non-increase is asserted for even-N Nyquist content); Wave: spectral wave energy sum w_k (|v_k|^2 + "
    "c^2 |kappa|^2 |h_k|^2) preserved on odd N / Nyquist-free states. Non-trivial: energy in >= 3 radial "
    "shells including the highest one and a step that is not the identity."
)
ASSUMPTIONS = [
    "float64 session",
    "the L2 norm of the wave state (h, v) is not claimed (h and v exchange energy)",
    "tolerances carry a factor (1 + 1e-5*max|Im lambda dt|): the complex exponential of a huge phase has modulus 1 only up to about 1e-17*phase",
]

VARIANTS = [
    "adv_s", "adv_v", "diff_s", "diff_v", "diff_psd", "advdiff_ss", "advdiff_vm",
    "disp_s0", "disp_s1", "disp_v0", "disp_v1", "hyp0", "hyp1", "wave",
    "genlin", "normlin", "difflin", "diffsimple", "genlin_odd",
]  # fmt: skip
CLS = dict(adv="Advection", diff="Diffusion", advdiff="AdvectionDiffusion", disp="Dispersion", hyp0="HyperDiffusion", hyp1="HyperDiffusion",
           wave="Wave", genlin="GeneralLinearStepper", normlin="NormalizedLinearStepper", difflin="DifficultyLinearStepper",
           diffsimple="DifficultyLinearStepperSimple")  # fmt: skip
HUGE_N = [512, 1000, 1023, 2048, 3001, 4096, 6000]
CONSERVATIVE = {"adv_s", "adv_v", "disp_s0", "disp_s1", "disp_v0", "disp_v1", "genlin_odd"}
STRICT = {"diff_s", "diff_v", "advdiff_ss", "advdiff_vm", "hyp0", "hyp1"}


def strata(tier):
    ns = {1: [9, 12], 2: [5, 6], 3: [3, 4]} if tier == "quick" else {1: [3, 4, 9, 16, 33, 40], 2: [3, 4, 7, 8, 13, 16], 3: [3, 4, 5, 6, 9, 10]}
    out = [dict(id="%s-D%d-N%d" % (v, D, N), v=v, D=D, N=N) for v in VARIANTS for D in (1, 2, 3) for N in ns[D]]
    out += [dict(id="%s-D%d-anyN" % (v, D), v=v, D=D, N="any") for i, v in enumerate(VARIANTS) for D in (1, 2, 3) if tier != "quick" or D == 1 + i % 3]
    # production-size 1D grids ("every resolution"): k^j of the highest modes exceeds 2^31 / 2^63 for the
    # higher derivative orders, exp(-dt nu k^j) underflows, phases are huge
    out += [dict(id="%s-D1-hugeN" % v, v=v, D=1, N="any", n_choices=HUGE_N) for v in VARIANTS]
    return out


def psd(D):
    """PSD matrix with possibly vanishing eigenvalues"""
    import numpy as np_

    def build(t):
        ev, angles = t
        Q = np_.eye(D)
        idx = 0
        for i in range(D):
            for j in range(i + 1, D):
                Gm = np_.eye(D)
                c, s = math.cos(angles[idx]), math.sin(angles[idx])
                Gm[i, i] = c
                Gm[j, j] = c
                Gm[i, j] = -s
                Gm[j, i] = s
                Q = Q @ Gm
                idx += 1
        A = Q @ np_.diag(ev) @ Q.T
        # exactly symmetric PSD: Gram form
        Bm = Q @ np_.diag(np_.sqrt(ev))
        A = Bm @ Bm.T
        return [[float(x) for x in row] for row in A]

    nang = D * (D - 1) // 2
    return st.tuples(
        st.lists(st.one_of(st.just(0.0), st.floats(0.01, 2.0)), min_size=D, max_size=D),
        st.lists(st.floats(0, 2 * math.pi), min_size=nang, max_size=nang),
    ).map(build)


def kw_strategy(v, D):
    pos = st.floats(0.01, 2.0).map(lambda x: float("%.6g" % x))
    sc = gens.nonzero_coef(0.05, 3.0)
    vec = lambda s_: st.lists(s_, min_size=D, max_size=D)  # noqa: E731
    if v == "adv_s":
        return st.fixed_dictionaries(dict(velocity=sc))
    if v == "adv_v":
        return st.fixed_dictionaries(dict(velocity=vec(sc)))
    if v == "diff_s":
        return st.fixed_dictionaries(dict(diffusivity=pos))
    if v == "diff_v":
        return st.fixed_dictionaries(dict(diffusivity=vec(pos)))
    if v == "diff_psd":
        return st.fixed_dictionaries(dict(diffusivity=psd(D)))
    if v == "advdiff_ss":
        return st.fixed_dictionaries(dict(velocity=sc, diffusivity=pos))
    if v == "advdiff_vm":
        return st.fixed_dictionaries(dict(velocity=vec(sc), diffusivity=gens.st_rotation_spd(D)))
    if v.startswith("disp_"):
        return st.fixed_dictionaries(dict(dispersivity=sc if v[5] == "s" else vec(sc), advect_on_diffusion=st.just(v.endswith("1"))))
    if v.startswith("hyp"):
        return st.fixed_dictionaries(dict(hyper_diffusivity=pos, diffuse_on_diffuse=st.just(v == "hyp1")))
    if v == "wave":
        return st.fixed_dictionaries(dict(speed_of_sound=st.one_of(gens.nonzero_coef(0.1, 5.0), gens.nonzero_coef(0.1, 5.0), gens.nonzero_coef(0.1, 5.0), st.just(0.0))))
    mag = st.one_of(st.just(0.0), st.floats(0.01, 2.0).map(lambda x: float("%.6g" % x)))
    odd = st.one_of(st.just(0.0), sc)

    def signed(t):
        a0, a1, a2, a3, a4, a5, a6, a7, a8, m = t
        a = [-a0, a1, a2, a3, -a4, a5, a6, a7, -a8]  # dissipative signs of the even orders 0, 2, 4, 6, 8
        return a[: m + 1]

    lst = st.tuples(mag, odd, mag, odd, mag, odd, mag, odd, mag, st.sampled_from([0, 1, 2, 3, 4, 5, 6, 7, 8, 8, 6])).map(signed)
    if v == "genlin":
        return st.fixed_dictionaries(dict(linear_coefficients=lst))
    if v == "genlin_odd":
        return st.fixed_dictionaries(dict(linear_coefficients=st.tuples(odd, sc, odd, st.integers(1, 5)).map(lambda t: [0.0, t[0], 0.0, t[1], 0.0, t[2]][: t[3] + 1])))
    if v == "normlin":
        return st.fixed_dictionaries(dict(normalized_linear_coefficients=lst))
    if v == "difflin":
        return st.fixed_dictionaries(dict(linear_difficulties=lst))
    if v == "diffsimple":
        # order j with the dissipative sign of that order; odd orders: any sign
        return st.integers(0, 8).flatmap(
            lambda j: st.fixed_dictionaries(
                dict(order=st.just(j), difficulty=(sc if j % 2 == 1 else st.floats(0.05, 5.0).map(lambda x: float("%.5g" % (x * (1 if j % 4 == 2 else -1))))))
            )
        )
    raise KeyError(v)


def strategy(stratum, tier):
    v, D, N = stratum["v"], stratum["D"], stratum["N"]
    C = 2 if v == "wave" else 1
    return st.fixed_dictionaries(
        dict(
            v=st.just(v),
            D=st.just(D),
            N=st.just(N),
            L=gens.st_L(extreme=True),
            dt=gens.log_floats(1e-6, 1e6),
            kw=kw_strategy(v, D),
            state=st.one_of(gens.st_white(0.1, 10.0), gens.st_white(0.1, 10.0), gens.st_white(0.1, 10.0, kind="nyqfree")),
            mean=st.one_of(st.just(0.0), gens.nonzero_coef(0.1, 2.0)),
            n=st.integers(1, 50),
            C=st.just(C),
        )
    )


def check(case):
    res = R()
    v, D, N, L, dt = case["v"], case["D"], case["N"], case["L"], case["dt"]
    cls = CLS[v.split("_")[0]]
    spec = dict(cls=cls, D=D, N=N, L=L, dt=dt, kw=case["kw"])
    key = "C11:%s:D%d" % (v, D)
    res.tag(v, "D%d" % D, "N%s" % ("odd" if N % 2 else "even"), case["state"]["kind"], "dt=1e%d" % int(math.floor(math.log10(dt))))
    C = case["C"]
    Le, dte = reg.eff_L_dt(spec)
    kap = 2 * math.pi / Le * orc.rfft_wavenumbers(D, N)
    if v != "wave":
        lam = reg.linear_symbol(spec, kap)
        if v in STRICT:
            # strictness above rounding by construction: dt * |Re lambda|_min over non-constant modes >= 1e-9
            nz = np.abs(kap).sum(0) > 0
            m = float(np.min(-(lam.real[nz]))) * dte
            if m < 1e-9:
                spec = dict(spec, dt=dt * 1e-9 / max(m, 1e-300) if m > 0 else dt)
                Le, dte = reg.eff_L_dt(spec)
    ok, S = res.lib("construct", reg.build, spec, key=key)
    if not ok:
        return res
    u = orc.make_state(case["state"], C, D, N) + case["mean"]
    nyq_free = N % 2 == 1 or case["state"]["kind"] == "nyqfree"
    n = case["n"]
    ok, trj = res.lib("rollout", lambda: ex.rollout(S, n, include_init=True)(jnp.asarray(u)), key=key)
    if not ok:
        return res
    trj = np.asarray(trj)
    res.true("finite", bool(np.all(np.isfinite(trj))), key=key + ":finite")
    if not np.all(np.isfinite(trj)):
        return res
    if v == "wave":
        c = case["kw"]["speed_of_sound"]
        last = kap[D - 1]
        w = np.where((last == 0) | ((N % 2 == 0) & (np.abs(last) * Le / (2 * math.pi) == N // 2)), 1.0, 2.0)
        k2 = (kap**2).sum(0)

        def energy(y):
            Y = orc.rfftn(y)
            return float(np.sum(w * (np.abs(Y[1]) ** 2 + c * c * k2 * np.abs(Y[0]) ** 2)))

        e = np.array([energy(trj[j]) for j in range(trj.shape[0])])
        # |exp(i theta)| deviates from 1 by about 1e-17*theta for large phases theta = omega*dt
        ph = 1.0 + 1e-3 * abs(c) * float(np.max(np.sqrt(k2))) * abs(dte)
        if nyq_free:
            res.claim("wave_energy_conserved", float(np.max(np.abs(e - e[0]))), 1e-11 * e[0] * n * ph + 1e-300, key=key + ":wave_energy")
        else:
            res.claim("wave_energy_not_increasing", float(np.max(e[1:] - e[:-1])), 1e-11 * e[0] * ph + 1e-300, key=key + ":wave_energy")
        res.nontrivial = True
        return res
    norms = np.sqrt((trj.reshape(trj.shape[0], -1) ** 2).sum(axis=1))
    ratio = norms[1:] / np.maximum(norms[:-1], 1e-300)
    lam = reg.linear_symbol(spec, kap)
    # |exp(i theta)| deviates from 1 by about 1e-17*theta for large phases theta = |Im lambda dt|
    ph = 1.0 + 1e-5 * float(np.max(np.abs(lam.imag))) * abs(dte)
    res.claim("norm_never_increases", float(np.max(ratio)) - 1.0, 1e-12 * ph, key=key + ":amplification", msg="worst step ratio-1 = %.3g" % (float(np.max(ratio)) - 1))
    conservative = v in CONSERVATIVE or float(np.max(np.abs(lam.real))) == 0.0
    if conservative and nyq_free:
        res.claim("norm_preserved", float(np.max(np.abs(norms - norms[0]))), 1e-12 * norms[0] * (1 + n) * ph, key=key + ":preservation")
        res.tag("norm_preserved_claimed")
    if v in STRICT:
        U0 = np.abs(orc.rfftn(trj[0]))
        U1 = np.abs(orc.rfftn(trj[1]))
        nz = (np.abs(kap).sum(0) > 0)[None] & (U0 > 1e-9 * np.max(U0))
        if nz.any():
            res.claim("every_nonconstant_mode_shrinks", float(np.max((U1 / np.maximum(U0, 1e-300))[nz])) - 1.0 + 1e-9, 9e-10, key=key + ":strict")
    z = np.abs(lam * dte)
    res.nontrivial = bool(np.max(z) > 1e-6 and N >= 4)
    return res


SUBS = [Sub("never_amplify", check, strata=strata, strategy=strategy, n=(3, 20))]
