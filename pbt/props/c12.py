"""C12 - forcing terms inject exactly the documented field."""

from __future__ import annotations

import math

import numpy as np
from hypothesis import strategies as st

import jax.numpy as jnp

import exponax as ex
from pbt import configs, gens, model, oracles as orc, registry as reg
from pbt.core import R, Sub

RULE = (
    "Laminar solution: KolmogorovFlowVorticity, GeneralVorticityConvectionStepper with injection (2D) and "
    "KolmogorovFlowVelocity (3D) started from rest, orders 1-4, Hypothesis draws L in [0.3,30], dt in "
    "[1e-3,10], n <= 20 steps, N odd/even, injection mode k in 1..(N-1)//2 (below and above the dealiasing "
    "cut-off), gamma, nu, drag (sigma may be 0 or positive), generic coefficient lists incl. odd orders; "
    "oracle: closed form Re[A (e^{sigma t}-1)/sigma e^{i kappa x_1}] with the documented forcing amplitude, "
    "channel, direction, phase. From a random state: one step against the reference model whose forcing is "
    "an own NumPy field added to the UNFORCED nonlinear term. ForcedStepper identities for every stepper "
    "family; zero injection equals the unforced stepper; rollout over a forcing sequence equals the loop. "
    "Non-trivial: gamma != 0, L != 2*pi, |sigma t| > 1e-3."
)
ASSUMPTIONS = [
    "float64 session",
    "growth bounded: Re(sigma) * n * dt <= 5, max_k Re(lambda_k) * n * dt <= 5 and (hydrodynamic instability of the laminar flow) b*|omega_laminar|*t <= 5, all by reducing the number of steps n",
    "x_1 denotes the second coordinate (array axis 1 of the spatial axes), as in the docstrings",
]

LAMINAR = ["KolmVort", "GenVortInj", "KolmVel"]


def lam_strata(tier):
    if tier == "quick":
        ns = {2: [7, 8, 12], 3: [6, 7]}
    else:
        ns = {2: [5, 6, 7, 8, 12, 15, 16], 3: [5, 6, 7, 8, 9]}
    out = []
    for f in LAMINAR:
        _, dims = configs.family_info(f)
        for D in dims:
            for N in ns[D]:
                out.append(dict(id="%s-D%d-N%d" % (f, D, N), fam=f, D=D, N=N))
            # "every grid size": N drawn from a wide range (forcing masks compare wavenumbers with ==)
            out.append(dict(id="%s-D%d-anyN" % (f, D), fam=f, D=D, N=None))
    return out


def lam_strategy(stratum, tier):
    f, D, N = stratum["fam"], stratum["D"], stratum["N"]
    if N is None:
        hi = {2: 128, 3: 26}[D] if tier != "quick" else {2: 110, 3: 20}[D]
        return st.one_of(st.integers(5, hi), st.sampled_from([49, 98, 103, 107] if D == 2 else [9, 12, 16])).flatmap(lambda N_: lam_strategy(dict(stratum, N=N_), tier))
    return st.fixed_dictionaries(
        dict(
            fam=st.just(f),
            spec=configs.st_spec(f, D, N, orders=(1, 2, 3, 4), dt=gens.log_floats(1e-3, 10.0), L=gens.st_L(0.3, 30.0), contour=True),
            n=st.integers(1, 20),
            state=gens.st_white(0.01, 0.5),
        )
    )


def forcing_field(spec):
    """documented forcing (C, N..N) on an own grid, and (kappa, complex amplitude A, channel)"""
    kw = model.full_kw(spec)
    D, N, L = spec["D"], spec["N"], spec["L"]
    k = kw["injection_mode"]
    g = kw["injection_scale"]
    kap = 2 * math.pi * k / L
    X = orc.own_grid(D, N, L)
    if D == 2:
        f = (-kap * g * np.cos(kap * X[1]))[None]
        A = -kap * g  # f = Re[A e^{i kappa x_1}]
    else:
        f = np.zeros((3,) + (N,) * 3)
        f[0] = g * np.sin(kap * X[1])
        A = -1j * g  # sin = Re[-i e^{i kappa x}]
    return f, kap, A


def sigma_of(spec, kap):
    """documented linear symbol at the forced wavevector (0, kappa[, 0])"""
    D = spec["D"]
    kv = np.zeros((D, 1))
    kv[1, 0] = kap
    return complex(model.symbol(spec, kv)[0, 0])


def lam_check(case):
    res = R()
    spec = case["spec"]
    D, N, L, dt = spec["D"], spec["N"], spec["L"], spec["dt"]
    kw = model.full_kw(spec)
    p = kw["order"]
    fam = case["fam"]
    key = "C12:laminar:%s" % spec["cls"]
    k = kw["injection_mode"]
    K = orc.cutoff_K(N, kw.get("dealiasing_fraction", 2 / 3))
    res.tag(fam, "order%d" % p, "N%s" % ("odd" if N % 2 else "even"), "k<=cutoff" if k <= K else "k>cutoff")
    f, kap, A = forcing_field(spec)
    sig = sigma_of(spec, kap)
    n = case["n"]
    # the laminar flow is a solution, but rounding noise in every other mode grows like exp(max Re(lambda) t):
    # keep max_k Re(lambda_k) * n * dt <= 5 as well
    kap_all = 2 * math.pi / L * orc.rfft_wavenumbers(D, N)
    gmax = max(float(np.max(model.symbol(spec, kap_all).real)), sig.real)
    while n > 1 and gmax * n * dt > 5.0:
        n -= 1
    if sig.real * n * dt > 5.0:
        spec = dict(spec, dt=5.0 / sig.real)
        dt = spec["dt"]
    # the laminar shear flow is an exact solution but hydrodynamically unstable at large amplitude: rounding
    # noise grows like exp(b * |omega_laminar| * t) (2D; 3D: kappa * |u_laminar|). Keep that exponent <= 5.
    bconv = abs(kw.get("convection_scale", kw.get("vorticity_convection_scale", 1.0)))

    def nl_exponent(nn):
        tt = nn * dt
        zz = sig * tt
        a_ = abs(A) * abs(tt if abs(zz) < 1e-300 else complex(orc.phi1(np.array([zz]))[0]) * tt)
        return bconv * a_ * (1.0 if D == 2 else kap) * tt

    while n > 1 and nl_exponent(n) > 5.0:
        n -= 1
    t = n * dt
    C = model.num_channels(spec)
    ok, S = res.lib("construct", reg.build, spec, key=key)
    if not ok:
        return res
    zero = jnp.zeros((C,) + (N,) * D)
    ok, got = res.lib("repeat", lambda: ex.repeat(S, n)(zero), key=key)
    if not ok:
        return res
    got = np.asarray(got)
    X = orc.own_grid(D, N, L)

    def exact(tt):
        z = sig * tt
        amp = A * (tt if abs(z) < 1e-300 else complex(orc.phi1(np.array([z]))[0]) * tt)
        field = (amp * np.exp(1j * kap * X[1])).real
        out = np.zeros((C,) + (N,) * D)
        out[0] = field
        return out, abs(amp)

    want, scale = exact(t)
    g = max(1.0, math.exp(max(0.0, sig.real * t)))
    tol = 1e-11 * (scale + abs(A) * t) * g * (1 + abs(sig * t)) * n
    res.claim("laminar:n_steps", float(np.max(np.abs(got - want))), tol, key=key + ":amplitude_phase_direction")
    # which aspect is wrong (separate claim ids help the shrunk report)
    if C > 1:
        res.claim("laminar:unforced_channels_stay_zero", float(np.max(np.abs(got[1:]))), tol, key=key + ":channel")
    ok, one = res.lib("first_step", S, zero, key=key)
    if ok:
        w1, s1 = exact(dt)
        res.claim("laminar:first_step", float(np.max(np.abs(np.asarray(one) - w1))), 1e-11 * (s1 + abs(A) * dt) * g * (1 + abs(sig * dt)), key=key + ":amplitude_phase_direction")
    res.nontrivial = bool(abs(L - 2 * math.pi) > 1e-3 and abs(sig * t) > 1e-3)
    # from a random state: reference model = unforced nonlinear term + own forcing field
    u = orc.make_state(case["state"], C, D, N)
    if D == 3:
        u = orc.leray_np(orc.remove_nyquist(u))
    ok, gotu = res.lib("call", S, jnp.asarray(u), key=key)
    if ok:
        unforced = dict(spec, kw=dict(spec["kw"], injection_scale=0.0))
        if spec["cls"] == "KolmogorovFlowVorticity":
            ukw = {a: b for a, b in spec["kw"].items() if a not in ("injection_mode", "injection_scale", "convection_scale")}
            ukw["vorticity_convection_scale"] = kw["convection_scale"]
            unforced = dict(spec, cls="NavierStokesVorticity", kw=ukw)
        elif spec["cls"] == "KolmogorovFlowVelocity":
            ukw = {a: b for a, b in spec["kw"].items() if a not in ("injection_mode", "injection_scale")}
            unforced = dict(spec, cls="NavierStokesVelocity", kw=ukw)
        nf0 = model.np_nonlin(model.nonlinear_fun(unforced))
        fh = orc.rfftn(f)
        rec = []

        def nfun(U):
            out = nf0(U) + fh
            rec.append(float(np.max(np.abs(out))))
            return out

        kapg = 2 * math.pi / L * orc.rfft_wavenumbers(D, N)
        lam = model.symbol(spec, kapg)
        Uh = orc.rfftn(u)
        # the library returns a real field: pass the reference through the same real inverse transform
        want_h = orc.rfftn(orc.irfftn(orc.etdrk_ref(p, dt, lam, Uh, nfun), N))
        got_h = orc.rfftn(np.asarray(gotu))
        with np.errstate(over="ignore"):
            E = float(np.max(np.maximum(1.0, np.exp(np.minimum((lam * dt).real, 700)))))
        Sc = E * (float(np.max(np.abs(Uh))) + abs(dt) * 4 * max(rec))
        res.claim("forced_step_equals_reference_model", float(np.max(np.abs(got_h - want_h))), 1e-10 * (1 + 1e-3 * float(np.max(np.abs(lam * dt)))) * Sc, key=key + ":model")
    return res


# ---------------------------------------------------------------- ForcedStepper / zero forcing

F_FAMILIES = ["Burgers_mn", "Burgers_sc", "KdV_scad", "KS", "NSVort", "KolmVort", "NSVel", "Fisher", "GrayScott", "GenNonlin", "Diffusion", "Advection", "Wave", "DiffLin", "NormConv_mc"]


def f_strata(tier):
    ns = {1: [8, 9], 2: [6, 7], 3: [6]} if tier == "quick" else {1: [7, 8, 16], 2: [6, 7, 9], 3: [6, 7]}
    out = []
    for i, f in enumerate(F_FAMILIES):
        _, dims = configs.family_info(f)
        for D in dims:
            for N in ([ns[D][i % len(ns[D])]] if tier == "quick" else ns[D]):
                out.append(dict(id="%s-D%d-N%d" % (f, D, N), fam=f, D=D, N=N))
    return out


def f_strategy(stratum, tier):
    f, D, N = stratum["fam"], stratum["D"], stratum["N"]
    return st.fixed_dictionaries(
        dict(
            fam=st.just(f),
            spec=configs.st_spec(f, D, N, orders=(0, 1, 2, 3, 4)),
            state=gens.st_white(0.1, 1.0),
            force=gens.st_white(0.1, 2.0),
            n=st.integers(1, 5),
        )
    )


def f_check(case):
    res = R()
    spec = case["spec"]
    D, N = spec["D"], spec["N"]
    key = "C12:forced_stepper:%s" % spec["cls"]
    res.tag(case["fam"], "D%d" % D)
    C = model.num_channels(spec)
    u = orc.make_state(case["state"], C, D, N)
    f = orc.make_state(case["force"], C, D, N)
    ok, S = res.lib("construct", reg.build, spec, key=key)
    if not ok:
        return res
    L, dt = reg.eff_L_dt(spec)
    FS = ex.ForcedStepper(S)
    ju, jf = jnp.asarray(u), jnp.asarray(f)
    ref = np.asarray(S(jnp.asarray(u + dt * f)))
    scale = float(np.max(np.abs(ref))) + float(np.max(np.abs(u)))
    ok, got = res.lib("forced_call", FS, ju, jf, key=key)
    if ok:
        res.claim("forced:equals_unforced_step_of_u_plus_dt_f", float(np.max(np.abs(np.asarray(got) - ref))), 1e-12 * scale, key=key)
    ok, got0 = res.lib("forced_call", FS, ju, jnp.zeros_like(ju), key=key)
    if ok:
        res.claim("forced:zero_forcing_equals_unforced", float(np.max(np.abs(np.asarray(got0) - np.asarray(S(ju))))), 1e-13 * scale, key=key)
    uh, fh = ex.fft(ju), ex.fft(jf)
    ok, goth = res.lib("forced_step_fourier", FS.step_fourier, uh, fh, key=key)
    if ok:
        refh = np.asarray(S.step_fourier(uh + dt * fh))
        res.claim("forced:step_fourier", float(np.max(np.abs(np.asarray(goth) - refh))), 1e-12 * (float(np.max(np.abs(refh))) + float(np.max(np.abs(np.asarray(uh))))), key=key)
    # rollout over a forcing sequence equals the loop
    n = case["n"]
    rng = np.random.default_rng(case["force"]["seed"])
    fs = rng.standard_normal((n,) + u.shape) * 0.5
    ok, trj = res.lib("rollout", lambda: ex.rollout(FS, n, takes_aux=True, constant_aux=False)(ju, jnp.asarray(fs)), key=key)
    if ok:
        x = ju
        worst = 0.0
        sc = scale
        for i in range(n):
            x = FS(x, jnp.asarray(fs[i]))
            sc = max(sc, float(np.max(np.abs(np.asarray(x)))))
            worst = max(worst, float(np.max(np.abs(np.asarray(trj[i]) - np.asarray(x)))))
        res.claim("forced:rollout_over_forcing_sequence", worst if np.isfinite(worst) else 0.0, 1e-11 * sc if np.isfinite(sc) else 1.0, key=key)
    res.nontrivial = True
    # zero injection equals the unforced stepper
    if spec["cls"] in ("KolmogorovFlowVorticity",):
        kw = dict(spec["kw"], injection_scale=0.0)
        S0 = reg.build(dict(spec, kw=kw))
        ukw = {a: b for a, b in spec["kw"].items() if a not in ("injection_mode", "injection_scale", "convection_scale")}
        ukw["vorticity_convection_scale"] = model.full_kw(spec)["convection_scale"]
        Su = reg.build(dict(spec, cls="NavierStokesVorticity", kw=ukw))
        res.claim("zero_injection_equals_unforced", float(np.max(np.abs(np.asarray(S0(ju)) - np.asarray(Su(ju))))), 1e-13 * scale, key=key)
    return res


SUBS = [
    Sub("laminar", lam_check, strata=lam_strata, strategy=lam_strategy, n=(8, 40), reps=(1, 2)),
    Sub("forced_stepper", f_check, strata=f_strata, strategy=f_strategy, n=(3, 12)),
]
