"""Reference model of a whole semi-linear stepper, assembled from the documentation:

    u_hat' = lambda(k) u_hat + N(u_hat)

`lambda` is the documented linear symbol (NumPy, written from the equations in the
docstrings); `N` is the documented nonlinear term, instantiated through the *public*
nonlinear-function classes with the documented parameters (their correctness against the
continuous operator is property C03; here they are the "stepper's own nonlinear term" of
property C02); the time integrator is pbt.oracles.etdrk_ref (exact phi functions).
"""

from __future__ import annotations

import inspect
import math

import numpy as np

from pbt import oracles as orc
from pbt import registry as reg


def full_kw(spec):
    """constructor keyword arguments with the signature defaults filled in"""
    cls = reg.get_class(spec["cls"])
    sig = inspect.signature(cls.__init__)
    kw = {}
    for name, p in sig.parameters.items():
        if p.kind == inspect.Parameter.KEYWORD_ONLY and p.default is not inspect.Parameter.empty:
            kw[name] = p.default
    kw.update(spec.get("kw", {}))
    return kw


def num_channels(spec):
    cls = spec["cls"]
    kw = full_kw(spec)
    D = spec["D"]
    if cls in ("Burgers", "KortewegDeVries", "KuramotoSivashinskyConservative", "GeneralConvectionStepper", "NormalizedConvectionStepper", "DifficultyConvectionStepper"):
        return 1 if kw.get("single_channel", False) else D
    if cls in ("NavierStokesVelocity", "KolmogorovFlowVelocity"):
        return 3
    if cls in ("GrayScott", "Wave"):
        return 2
    return 1


def order_of(spec):
    cls = spec["cls"]
    if cls in ("Advection", "Diffusion", "AdvectionDiffusion", "Dispersion", "HyperDiffusion", "Wave", "GeneralLinearStepper", "NormalizedLinearStepper", "DifficultyLinearStepper", "DifficultyLinearStepperSimple"):
        return 0
    return full_kw(spec).get("order", 2)


def _generic_linear(spec, kw):
    D, N = spec["D"], spec["N"]
    if "linear_difficulties" in kw and spec["cls"].startswith("Difficulty"):
        return reg.difficulty_to_normalized(list(kw["linear_difficulties"]), D, N)
    if "normalized_linear_coefficients" in kw and spec["cls"].startswith("Normalized"):
        return list(kw["normalized_linear_coefficients"])
    return list(kw["linear_coefficients"])


def symbol(spec, kap):
    """documented linear symbol, shape (E, ...) with E in {1, C}"""
    cls = spec["cls"]
    kw = full_kw(spec)
    D = spec["D"]
    k2 = (kap**2).sum(0)
    k4 = (kap**4).sum(0)
    one = np.ones(kap.shape[1:])
    if cls == "Burgers":
        return (-kw["diffusivity"] * k2 + 0j)[None]
    if cls == "KortewegDeVries":
        a3 = kw["dispersivity"]
        lam = -kw["diffusivity"] * k2 + 0j
        if kw["advect_over_diffuse"]:
            lam = lam - (1j * a3 * kap.sum(0)) * (-k2)
        else:
            lam = lam - a3 * ((1j * kap) ** 3).sum(0)
        if kw["diffuse_over_diffuse"]:
            lam = lam - kw["hyper_diffusivity"] * k2**2
        else:
            lam = lam - kw["hyper_diffusivity"] * k4
        return lam[None]
    if cls in ("KuramotoSivashinsky", "KuramotoSivashinskyConservative"):
        return (kw["second_order_scale"] * k2 - kw["fourth_order_scale"] * k4 + 0j)[None]
    if cls in ("NavierStokesVorticity", "KolmogorovFlowVorticity", "NavierStokesVelocity", "KolmogorovFlowVelocity"):
        return (-kw["diffusivity"] * k2 + kw["drag"] * one + 0j)[None]
    if cls == "FisherKPP":
        return (-kw["diffusivity"] * k2 + kw["reactivity"] * one + 0j)[None]
    if cls == "AllenCahn":
        return (-kw["diffusivity"] * k2 + kw["first_order_coefficient"] * one + 0j)[None]
    if cls == "CahnHilliard":
        # nu * Laplace (c1 u - gamma Laplace u)
        return (kw["diffusivity"] * (-k2) * (kw["first_order_coefficient"] + kw["gamma"] * k2) + 0j)[None]
    if cls == "GrayScott":
        return np.stack([-kw["diffusivity_1"] * k2 + 0j, -kw["diffusivity_2"] * k2 + 0j])
    if cls == "SwiftHohenberg":
        return (kw["reactivity"] * one - (kw["critical_number"] - k2) ** 2 + 0j)[None]
    if cls.startswith(("General", "Normalized", "Difficulty")):
        if cls in ("GeneralLinearStepper", "NormalizedLinearStepper", "DifficultyLinearStepper", "DifficultyLinearStepperSimple"):
            return reg.linear_symbol(spec, kap)[None]
        return reg.generic_symbol(_generic_linear(spec, kw), kap)[None]
    return reg.linear_symbol(spec, kap)[None]


def nonlinear_fun(spec):
    """the documented nonlinear term as a public exponax nonlinear-function object"""
    import exponax as ex
    from exponax.stepper.reaction._cahn_hilliard import CahnHilliardNonlinearFun
    from exponax.stepper.reaction._gray_scott import GrayScottNonlinearFun

    NF = ex.nonlin_fun
    cls = spec["cls"]
    kw = full_kw(spec)
    D, N = spec["D"], spec["N"]
    L, _ = reg.eff_L_dt(spec)
    dop = ex.spectral.build_derivative_operator(D, L, N)
    frac = kw.get("dealiasing_fraction", 2 / 3)
    M = kw.get("maximum_absolute", 1.0)
    if cls in ("Burgers", "KortewegDeVries", "KuramotoSivashinskyConservative", "GeneralConvectionStepper"):
        return NF.ConvectionNonlinearFun(D, N, derivative_operator=dop, dealiasing_fraction=frac, scale=kw["convection_scale"], single_channel=kw["single_channel"], conservative=kw["conservative"])
    if cls == "NormalizedConvectionStepper":
        return NF.ConvectionNonlinearFun(D, N, derivative_operator=dop, dealiasing_fraction=frac, scale=kw["normalized_convection_scale"], single_channel=kw["single_channel"], conservative=kw["conservative"])
    if cls == "DifficultyConvectionStepper":
        beta = kw["convection_difficulty"] / (M * N * D)
        return NF.ConvectionNonlinearFun(D, N, derivative_operator=dop, dealiasing_fraction=frac, scale=beta, single_channel=kw["single_channel"], conservative=kw["conservative"])
    if cls in ("KuramotoSivashinsky", "GeneralGradientNormStepper"):
        return NF.GradientNormNonlinearFun(D, N, derivative_operator=dop, dealiasing_fraction=frac, zero_mode_fix=True, scale=kw["gradient_norm_scale"])
    if cls == "NormalizedGradientNormStepper":
        return NF.GradientNormNonlinearFun(D, N, derivative_operator=dop, dealiasing_fraction=frac, zero_mode_fix=True, scale=kw["normalized_gradient_norm_scale"])
    if cls == "DifficultyGradientNormStepper":
        beta = kw["gradient_norm_difficulty"] / (M * N**2 * D)
        return NF.GradientNormNonlinearFun(D, N, derivative_operator=dop, dealiasing_fraction=frac, zero_mode_fix=True, scale=beta)
    if cls == "NavierStokesVorticity":
        return NF.VorticityConvection2d(D, N, convection_scale=kw["vorticity_convection_scale"], derivative_operator=dop, dealiasing_fraction=frac)
    if cls == "KolmogorovFlowVorticity":
        return NF.VorticityConvection2dKolmogorov(D, N, convection_scale=kw["convection_scale"], injection_mode=kw["injection_mode"], injection_scale=kw["injection_scale"], derivative_operator=dop, dealiasing_fraction=frac)
    if cls == "GeneralVorticityConvectionStepper":
        if kw["injection_scale"] == 0.0:
            return NF.VorticityConvection2d(D, N, convection_scale=kw["vorticity_convection_scale"], derivative_operator=dop, dealiasing_fraction=frac)
        return NF.VorticityConvection2dKolmogorov(D, N, convection_scale=kw["vorticity_convection_scale"], injection_mode=kw["injection_mode"], injection_scale=kw["injection_scale"], derivative_operator=dop, dealiasing_fraction=frac)
    if cls == "NavierStokesVelocity":
        return NF.ProjectedConvection3d(D, N, derivative_operator=dop, dealiasing_fraction=frac)
    if cls == "KolmogorovFlowVelocity":
        return NF.ProjectedConvection3dKolmogorov(D, N, injection_mode=kw["injection_mode"], injection_scale=kw["injection_scale"], derivative_operator=dop, dealiasing_fraction=frac)
    if cls == "FisherKPP":
        return NF.PolynomialNonlinearFun(D, N, dealiasing_fraction=frac, coefficients=(0.0, 0.0, -kw["reactivity"]))
    if cls == "AllenCahn":
        return NF.PolynomialNonlinearFun(D, N, dealiasing_fraction=frac, coefficients=(0.0, 0.0, 0.0, kw["third_order_coefficient"]))
    if cls == "SwiftHohenberg":
        return NF.PolynomialNonlinearFun(D, N, dealiasing_fraction=frac, coefficients=tuple(kw["polynomial_coefficients"]))
    if cls == "CahnHilliard":
        return CahnHilliardNonlinearFun(D, N, derivative_operator=dop, scale=kw["diffusivity"] * kw["third_order_coefficient"], dealiasing_fraction=frac)
    if cls == "GrayScott":
        return GrayScottNonlinearFun(D, N, dealiasing_fraction=frac, feed_rate=kw["feed_rate"], kill_rate=kw["kill_rate"])
    if cls == "GeneralPolynomialStepper":
        return NF.PolynomialNonlinearFun(D, N, dealiasing_fraction=frac, coefficients=tuple(kw["polynomial_coefficients"]))
    if cls == "NormalizedPolynomialStepper":
        return NF.PolynomialNonlinearFun(D, N, dealiasing_fraction=frac, coefficients=tuple(kw["normalized_polynomial_coefficients"]))
    if cls == "DifficultyPolynomialStepper":
        return NF.PolynomialNonlinearFun(D, N, dealiasing_fraction=frac, coefficients=tuple(kw["polynomial_difficulties"]))
    if cls == "GeneralNonlinearStepper":
        return NF.GeneralNonlinearFun(D, N, derivative_operator=dop, dealiasing_fraction=frac, scale_list=tuple(kw["nonlinear_coefficients"]), zero_mode_fix=True)
    if cls == "NormalizedNonlinearStepper":
        return NF.GeneralNonlinearFun(D, N, derivative_operator=dop, dealiasing_fraction=frac, scale_list=tuple(kw["normalized_nonlinear_coefficients"]), zero_mode_fix=True)
    if cls == "DifficultyNonlinearStepper":
        d0, d1, d2 = kw["nonlinear_difficulties"]
        return NF.GeneralNonlinearFun(D, N, derivative_operator=dop, dealiasing_fraction=frac, scale_list=(d0, d1 / (M * N * D), d2 / (M * N**2 * D)), zero_mode_fix=True)
    return NF.ZeroNonlinearFun(D, N)


def np_nonlin(nf):
    import jax.numpy as jnp

    def f(U):
        return np.asarray(nf(jnp.asarray(U)))

    return f


def model_step_fourier(spec, U, order=None, record=None):
    """one documented ETDRK-p step on the half spectrum U (C, ..., N//2+1)"""
    D, N = spec["D"], spec["N"]
    L, dt = reg.eff_L_dt(spec)
    kap = 2 * math.pi / L * orc.rfft_wavenumbers(D, N)
    lam = symbol(spec, kap)
    p = order_of(spec) if order is None else order
    nf = np_nonlin(nonlinear_fun(spec)) if p > 0 else None
    if record is not None and nf is not None:
        inner = nf

        def nf(Ux):  # noqa: F811
            out = inner(Ux)
            record.append(float(np.max(np.abs(out))))
            return out

    return orc.etdrk_ref(p, dt, lam, U, nf), lam


def model_step(spec, u, order=None, record=None):
    """one documented step in physical space"""
    N = spec["N"]
    U = orc.rfftn(u)
    Un, lam = model_step_fourier(spec, U, order=order, record=record)
    return orc.irfftn(Un, N), lam
