"""Hypothesis strategies producing JSON-serialisable case fragments.

Every random choice of a case is drawn here (white-noise arrays are a
deterministic NumPy function of a drawn integer seed, so that cases stay small,
serialisable and replayable)."""

from __future__ import annotations

import math

from hypothesis import strategies as st

TWO_PI = 2 * math.pi


def log_floats(lo, hi, sign=False):
    """log-uniform floats in [lo, hi]; optionally with a random sign"""
    s = st.floats(math.log10(lo), math.log10(hi), allow_nan=False).map(
        lambda e: float("%.6g" % (10.0**e))
    )
    if sign:
        return st.tuples(s, st.sampled_from([1.0, -1.0])).map(lambda t: t[0] * t[1])
    return s


def st_L(lo=0.1, hi=100.0, extreme=False):
    """domain extents: the special values 1 and 2*pi, log-uniform in [lo, hi] and (extreme=True) occasionally
    log-uniform in [1e-3, 1e7], in [2e4, 2e6] (where (2 pi/L)^2 k^2 crosses 1e-8 for the low modes) or one of 1e-2, 1e5, 1e6 (absolute tolerances such as isclose(x, 0) only misbehave at extreme scales)"""
    if extreme:
        return st.one_of(
            st.sampled_from([1.0, TWO_PI]), log_floats(lo, hi), log_floats(lo, hi), log_floats(1e-3, 1e7), log_floats(2e4, 2e6), st.sampled_from([1e5, 1e6, 1e-2])
        )
    return st.one_of(st.sampled_from([1.0, TWO_PI]), log_floats(lo, hi))


def coef(lo=-2.0, hi=2.0):
    """coefficient in [lo, hi]; magnitudes below 1e-6 are flushed to exactly 0 (subnormal / tiny values only
    test the rounding of the comparison itself)"""
    return st.floats(lo, hi, allow_nan=False, allow_infinity=False).map(
        lambda x: float("%.6g" % x) if abs(x) >= 1e-6 else 0.0
    )


def nonzero_coef(lo=0.1, hi=2.0):
    return st.tuples(
        st.floats(lo, hi, allow_nan=False).map(lambda x: float("%.6g" % x)),
        st.sampled_from([1.0, -1.0]),
    ).map(lambda t: t[0] * t[1])


def st_seed():
    return st.integers(0, 2**31 - 1)


def st_white(amp_lo=0.1, amp_hi=2.0, kind="white"):
    return st.fixed_dictionaries(
        dict(
            kind=st.just(kind),
            seed=st_seed(),
            amp=st.floats(amp_lo, amp_hi).map(lambda x: float("%.4g" % x)),
        )
    )


def st_mode(D, kmax, amp=2.0):
    """one plane-wave mode [k, a, phi]"""
    return st.tuples(
        st.lists(st.integers(-kmax, kmax), min_size=D, max_size=D),
        nonzero_coef(0.05, amp),
        st.floats(0, TWO_PI).map(lambda x: float("%.4g" % x)),
    ).map(list)


def st_modes(D, kmax, min_modes=1, max_modes=5, amp=2.0):
    return st.lists(st_mode(D, kmax, amp), min_size=min_modes, max_size=max_modes)


def st_trig(C, D, kmax, min_modes=1, max_modes=5, amp=2.0):
    """trigonometric-polynomial state spec with C channels, |k_d| <= kmax"""
    return st.fixed_dictionaries(
        dict(
            kind=st.just("trig"),
            modes=st.lists(
                st_modes(D, kmax, min_modes, max_modes, amp), min_size=C, max_size=C
            ),
        )
    )


def grid_strata(tier, n1, n2, n3, dims=(1, 2, 3)):
    """list of (D, N) pairs; n1/n2/n3 = (quick list, thorough list) of N per D"""
    out = []
    sel = 0 if tier == "quick" else 1
    for D, ns in zip((1, 2, 3), (n1, n2, n3)):
        if D not in dims:
            continue
        for N in ns[sel]:
            out.append((D, N))
    return out


def st_rotation_spd(D):
    """SPD matrix A = Q diag(ev) Q^T as nested lists from drawn eigenvalues/angles"""
    import numpy as np

    def build(t):
        ev, angles = t
        Q = np.eye(D)
        idx = 0
        for i in range(D):
            for j in range(i + 1, D):
                G = np.eye(D)
                c, s = math.cos(angles[idx]), math.sin(angles[idx])
                G[i, i] = c
                G[j, j] = c
                G[i, j] = -s
                G[j, i] = s
                Q = Q @ G
                idx += 1
        A = Q @ np.diag(ev) @ Q.T
        A = (A + A.T) / 2
        return [[float(x) for x in row] for row in A]

    nang = D * (D - 1) // 2
    return st.tuples(
        st.lists(st.floats(0.05, 2.0), min_size=D, max_size=D),
        st.lists(st.floats(0, TWO_PI), min_size=nang, max_size=nang),
    ).map(build)


DELICATE_N = [49, 98, 103, 107, 161, 187, 196, 197, 206, 214, 237, 239, 249, 253]  # N * fl(1/N) != 1 in double precision


def st_any_n(D, tier, n_min=3, n_max=None):
    """grid sizes for the 'any N' strata: uniform over a wide range, plus sizes that are delicate for floating point
    (N*fl(1/N) != 1), powers of two and multiples of six (dealiasing cut-off on a bin edge)"""
    hi = n_max or ({1: 300, 2: 40, 3: 14} if tier == "quick" else {1: 600, 2: 110, 3: 24})[D]
    special = [n for n in DELICATE_N + [6, 12, 18, 24, 30, 36, 48, 8, 16, 32, 64, 128, 256, 27, 81, 243] if n_min <= n <= hi]
    parts = [st.integers(n_min, hi), st.integers(n_min, hi)]
    if special:
        parts.append(st.sampled_from(special))
    return st.one_of(*parts)
