"""Runner core: seeds, sharding over processes, Hypothesis driving, evidence,
violation / known-finding protocol, replay I/O.

A property module (pbt/props/cXX.py) exports

    SUBS : list[Sub]      sub-checks (each a generator + oracle + non-triviality rule)
    RULE : str            how cases are generated and what counts as non-trivial
    ASSUMPTIONS : list[str]

A sub-check evaluates one JSON-serialisable *case* and returns an ``R`` that
lists every failed claim (each with a root-cause key), the worst
residual/tolerance ratio per claim and whether the case was non-trivial.
"""

from __future__ import annotations

import hashlib
import importlib
import json
import math
import os
import sys
import time
import traceback
from collections import Counter

ROOT = os.path.dirname(os.path.dirname(os.path.abspath(__file__)))
KNOWN_FILE = os.path.join(ROOT, "known_findings.json")
PROPS = ["C%02d" % i for i in range(1, 21)]


# --------------------------------------------------------------------------
# result of one case


class R:
    """Outcome of evaluating one case."""

    def __init__(self):
        self.fails = []  # dicts: claim, key, resid, tol, msg
        self.margins = {}  # claim -> worst resid/tol
        self.nclaims = Counter()  # claim -> times asserted
        self.nontrivial = False
        self.tags = []  # strings for histograms
        self.key = None  # optional distinct-key (defaults to the hash of the case)
        self.info = {}

    def claim(self, cid, resid, tol, key=None, msg=""):
        """Assert resid <= tol (NaN fails).  Records the margin."""
        resid = float(resid)
        tol = float(tol)
        self.nclaims[cid] += 1
        if tol > 0 and math.isfinite(resid):
            ratio = resid / tol
        elif resid == 0:
            ratio = 0.0
        else:
            ratio = math.inf
        if ratio > self.margins.get(cid, 0.0):
            self.margins[cid] = ratio
        if not (resid <= tol):
            self.fails.append(
                dict(claim=cid, key=key or cid, resid=resid, tol=tol, msg=msg)
            )
            return False
        return True

    def true(self, cid, cond, key=None, msg=""):
        """Assert a boolean claim."""
        self.nclaims[cid] += 1
        self.margins.setdefault(cid, 0.0)
        if not bool(cond):
            self.fails.append(
                dict(claim=cid, key=key or cid, resid=1.0, tol=0.0, msg=msg)
            )
            return False
        return True

    def lib(self, cid, fn, *a, key=None, **kw):
        """Call library code on a sound input; an exception is a failed claim
        (the property promises a value).  Returns (ok, value)."""
        self.nclaims[cid + ":raises"] += 1
        try:
            return True, fn(*a, **kw)
        except Exception as e:  # noqa: BLE001 - the contract is "returns a value"
            self.fails.append(
                dict(
                    claim=cid + ":raises",
                    key=(key or cid) + ":raises:" + type(e).__name__,
                    resid=1.0,
                    tol=0.0,
                    msg="%s: %s" % (type(e).__name__, str(e)[:300]),
                )
            )
            return False, None

    def tag(self, *tags):
        self.tags.extend(str(t) for t in tags)


class Sub:
    """One sub-check.

    strata(tier) -> list of JSON-able dicts (each should carry an "id")
    strategy(stratum, tier) -> Hypothesis strategy of cases       (generated part)
    cases(stratum, tier) -> iterable of cases                     (enumerated part)
    check(case) -> R
    n: (quick, thorough) examples per stratum for the generated part
    """

    def __init__(
        self,
        name,
        check,
        *,
        strata=None,
        strategy=None,
        cases=None,
        n=(10, 100),
        doc="",
        exhaustive=False,
        frames=None,
        reps=(1, 1),
        runner=None,
    ):
        self.name = name
        # runner(prop, sub, stratum, tier, seed, stats, open_known, rep): custom driver (stateful machines)
        self.runner = runner
        # reps: independent Hypothesis runs (own seed, own process slot) per stratum
        self.reps = reps
        self.check = check
        self.strata = strata or (lambda tier: [{"id": "all"}])
        self.strategy = strategy
        self.cases = cases
        self.n = n
        self.doc = doc
        self.exhaustive = exhaustive
        # frames(stratum, tier) -> list of JSON-able frames enumerated completely;
        # strategy(stratum, tier, frame) then draws the remaining parameters per frame
        self.frames = frames

    def count(self, tier, stratum):
        n = self.n[0] if tier == "quick" else self.n[1]
        if callable(n):
            n = n(stratum)
        scale = float(os.environ.get("VERIF_SCALE", "1"))
        return max(1, int(round(n * scale)))


class Violation(Exception):
    pass


# --------------------------------------------------------------------------
# helpers


def jdump(obj):
    return json.dumps(obj, sort_keys=True, default=_jdefault)


def _jdefault(o):
    try:
        import numpy as np

        if isinstance(o, np.generic):
            return o.item()
        if isinstance(o, np.ndarray):
            return o.tolist()
    except Exception:  # pragma: no cover
        pass
    if isinstance(o, complex):
        return [o.real, o.imag]
    return str(o)


def case_hash(case):
    return hashlib.sha256(jdump(case).encode()).hexdigest()[:16]


def unit_seed(seed, prop, sub, stratum_id):
    h = hashlib.sha256(("%d|%s|%s|%s" % (seed, prop, sub, stratum_id)).encode())
    return int(h.hexdigest()[:15], 16)


def load_known():
    try:
        with open(KNOWN_FILE) as f:
            d = json.load(f)
    except FileNotFoundError:
        d = {}
    return d.get("open", []), d.get("fixed", [])


def is_known(prop, fail, open_list):
    for e in open_list:
        if e.get("property") == prop and fail["key"].startswith(e["key"]):
            return e["key"]
    return None


def load_module(prop):
    return importlib.import_module("pbt.props." + prop.lower())


def get_sub(mod, name):
    for s in mod.SUBS:
        if s.name == name:
            return s
    raise KeyError(name)


# --------------------------------------------------------------------------
# worker side


class UnitStats:
    def __init__(self):
        self.evals = 0
        self.nontrivial = 0
        self.hashes = set()
        self.samples = []
        self.tags = Counter()
        self.margins = {}
        self.nclaims = Counter()
        self.known = Counter()
        self.known_example = {}
        self.violations = []
        self.errors = []

    def record(self, case, res):
        self.evals += 1
        for t in res.tags:
            self.tags[t] += 1
        for c, m in res.margins.items():
            if m > self.margins.get(c, -1.0):
                self.margins[c] = m
        self.nclaims.update(res.nclaims)
        if res.nontrivial:
            self.nontrivial += 1
            self.hashes.add(res.key if res.key is not None else case_hash(case))
            if len(self.samples) < 2:
                self.samples.append(case)

    def as_dict(self):
        return dict(
            evals=self.evals,
            nontrivial=self.nontrivial,
            hashes=sorted(self.hashes),
            samples=self.samples,
            tags=dict(self.tags),
            margins=self.margins,
            nclaims=dict(self.nclaims),
            known=dict(self.known),
            known_example=self.known_example,
            violations=self.violations,
            errors=self.errors,
        )


def _eval_case(prop, sub, case, stats, open_known):
    """Evaluate one case; returns list of unlisted failures."""
    res = sub.check(case)
    stats.record(case, res)
    unlisted = []
    for f in res.fails:
        k = is_known(prop, f, open_known)
        if k is None:
            unlisted.append(f)
        else:
            stats.known[k] += 1
            stats.known_example.setdefault(k, dict(case=case, fail=f))
    return unlisted


def run_unit(args):
    prop, subname, sidx, tier, seed, rep = args
    t0 = time.time()
    stats = UnitStats()
    out = dict(prop=prop, sub=subname, sidx=sidx)
    try:
        mod = load_module(prop)
        sub = get_sub(mod, subname)
        stratum = sub.strata(tier)[sidx]
        out["stratum"] = stratum.get("id", str(sidx))
        open_known, _ = load_known()
        if sub.runner is not None:
            sub.runner(prop, sub, stratum, tier, unit_seed(seed, prop, sub.name, stratum.get("id", "") + "@%d" % rep), stats, open_known)
        elif sub.cases is not None and sub.strategy is None:
            _run_enumerated(prop, sub, stratum, tier, stats, open_known)
        else:
            _run_generated(prop, sub, stratum, tier, seed, stats, open_known, rep)
    except Exception:  # harness error, never a violation
        stats.errors.append(traceback.format_exc())
    out.update(stats.as_dict())
    out["wall"] = time.time() - t0
    return out


def _run_enumerated(prop, sub, stratum, tier, stats, open_known):
    first = None
    nviol = 0
    for case in sub.cases(stratum, tier):
        unl = _eval_case(prop, sub, case, stats, open_known)
        if unl:
            nviol += 1
            # keep the smallest failing case (by serialised length) as reproduction
            if first is None or len(jdump(case)) < len(jdump(first[0])):
                first = (case, unl)
    if first is not None:
        stats.violations.append(
            dict(case=first[0], fails=first[1], shrunk=False, failing_cases=nviol)
        )


def _run_generated(prop, sub, stratum, tier, seed, stats, open_known, rep=0):
    rtag = "@%d" % rep
    if sub.frames is None:
        return _run_given(prop, sub, stratum, tier, seed, stats, open_known, None, rtag)
    for i, frame in enumerate(sub.frames(stratum, tier)):
        _run_given(prop, sub, stratum, tier, seed, stats, open_known, frame, "#%d%s" % (i, rtag))
        if len(stats.violations) >= 3:
            break


def _run_given(prop, sub, stratum, tier, seed, stats, open_known, frame, ftag):
    import hypothesis
    from hypothesis import HealthCheck, Phase, Verbosity, given, settings

    n = sub.count(tier, stratum)
    if stratum.get("N") == "any":
        # "any N" stratum: the grid size is drawn (wide range + values known to be delicate) and the module's own
        # strategy is built for it
        from pbt import gens as _gens

        def _for_n(n_):
            s_ = dict(stratum, N=n_)
            return sub.strategy(s_, tier) if frame is None else sub.strategy(s_, tier, frame)

        if stratum.get("n_choices"):  # explicit list of (e.g. very large) grid sizes
            from hypothesis import strategies as _st

            strat = _st.sampled_from(list(stratum["n_choices"])).flatmap(_for_n)
        else:
            strat = _gens.st_any_n(stratum["D"], tier, stratum.get("n_min", 3), stratum.get("n_max")).flatmap(_for_n)
    elif frame is None:
        strat = sub.strategy(stratum, tier)
    else:
        strat = sub.strategy(stratum, tier, frame)
    shrink_budget = int(
        os.environ.get("VERIF_SHRINK_BUDGET", "60" if tier == "quick" else "400")
    )
    st = dict(best=None, best_fails=None, after=0, calls=0)

    def body(case):
        st["calls"] += 1
        if st["calls"] == 1 and st["best"] is None:
            # Hypothesis always starts the generate phase with the all-minimal ("zero") example,
            # independently of the seed; it is skipped (max_examples is n + 1) so that small per-stratum
            # budgets are spent on seed-dependent draws
            return
        if st["best"] is not None and st["after"] >= shrink_budget:
            # shrink budget used up: only the recorded minimal case still fails
            if jdump(case) != jdump(st["best"]):
                return
            raise Violation()
        if st["best"] is not None:
            st["after"] += 1
        unl = _eval_case(prop, sub, case, stats, open_known)
        if unl:
            st["best"] = case
            st["best_fails"] = unl
            raise Violation()

    test = given(strat)(body)
    test = settings(
        max_examples=n + 1,
        database=None,
        deadline=None,
        derandomize=False,
        report_multiple_bugs=False,
        suppress_health_check=list(HealthCheck),
        phases=(Phase.generate, Phase.shrink),
        verbosity=Verbosity.quiet,
    )(test)
    test = hypothesis.seed(
        unit_seed(seed, prop, sub.name, stratum.get("id", "") + ftag)
    )(test)
    try:
        test()
    except Violation:
        stats.violations.append(
            dict(case=st["best"], fails=st["best_fails"], shrunk=True)
        )
    except hypothesis.errors.Flaky:
        if st["best"] is not None:
            stats.violations.append(
                dict(case=st["best"], fails=st["best_fails"], shrunk=False)
            )
        else:
            raise


def run_corpus_unit(args):
    prop, path = args
    stats = UnitStats()
    out = dict(prop=prop, sub="corpus", sidx=0, stratum=os.path.basename(path))
    t0 = time.time()
    try:
        with open(path) as f:
            rec = json.load(f)
        mod = load_module(prop)
        sub = get_sub(mod, rec["sub"])
        open_known, _ = load_known()
        unl = _eval_case(prop, sub, rec["case"], stats, open_known)
        out["sub"] = rec["sub"]
        if unl:
            stats.violations.append(dict(case=rec["case"], fails=unl, shrunk=False))
    except Exception:
        stats.errors.append(traceback.format_exc())
    out.update(stats.as_dict())
    out["wall"] = time.time() - t0
    return out


# --------------------------------------------------------------------------
# parent side


def write_replay(prop, sub, stratum, tier, seed, viol):
    d = os.environ.get("VERIF_FOUND_DIR") or os.path.join(ROOT, "replays", "found")
    os.makedirs(d, exist_ok=True)
    rec = dict(
        property=prop,
        sub=sub,
        stratum=stratum,
        tier=tier,
        seed=seed,
        case=viol["case"],
        failures=viol["fails"],
        shrunk=viol.get("shrunk", False),
    )
    name = "%s-%s-%s.json" % (prop, sub, case_hash(viol["case"]))
    path = os.path.join(d, name)
    with open(path, "w") as f:
        f.write(json.dumps(rec, indent=1, sort_keys=True, default=_jdefault))
    return os.path.relpath(path, ROOT)


def run_property(prop, tier):
    t0 = time.time()
    seed = int(os.environ.get("VERIF_SEED", "1"))
    mod = load_module(prop)
    only = os.environ.get("VERIF_SUBS")
    subs = [s for s in mod.SUBS if not only or s.name in only.split(",")]
    units = []
    for s in subs:
        nrep = s.reps[0] if tier == "quick" else s.reps[1]
        if s.cases is not None and s.strategy is None and s.runner is None:
            nrep = 1
        for i, _ in enumerate(s.strata(tier)):
            for rep in range(nrep):
                units.append((prop, s.name, i, tier, seed, rep))
    # interleave sub-checks so that expensive ones do not all come last
    units.sort(key=lambda u: (u[2], u[1]))
    cdir = os.path.join(ROOT, "replays", "corpus", prop)
    corpus = []
    if os.path.isdir(cdir) and not only:
        corpus = [
            (prop, os.path.join(cdir, f))
            for f in sorted(os.listdir(cdir))
            if f.endswith(".json")
        ]
    nproc = int(
        os.environ.get("VERIF_PROCS", "8" if tier == "quick" else "16")
    )
    nproc = max(1, min(nproc, len(units) + len(corpus)))
    results = []
    if nproc == 1:
        for c in corpus:
            results.append(run_corpus_unit(c))
        for u in units:
            results.append(run_unit(u))
    else:
        import multiprocessing as mp
        from concurrent.futures import ProcessPoolExecutor, as_completed

        ctx = mp.get_context("spawn")
        with ProcessPoolExecutor(max_workers=nproc, mp_context=ctx) as ex:
            futs = [ex.submit(run_corpus_unit, c) for c in corpus]
            futs += [ex.submit(run_unit, u) for u in units]
            try:
                for f in as_completed(futs):
                    results.append(f.result())
            except Exception:
                print("HARNESS-ERROR: worker pool failed", flush=True)
                traceback.print_exc()
                return 2

    # ---- merge
    open_known, fixed_known = load_known()
    evals = sum(r["evals"] for r in results)
    hashes = set()
    for r in results:
        hashes.update((r["sub"], h) for h in r["hashes"])
    tags = Counter()
    nclaims = Counter()
    margins = {}
    known = Counter()
    known_example = {}
    per_sub = {}
    samples = []
    errors = []
    violations = []
    for r in sorted(results, key=lambda r: (r["sub"], r["sidx"], r.get("stratum", ""))):
        tags.update(r["tags"])
        nclaims.update(r["nclaims"])
        for c, m in r["margins"].items():
            if m > margins.get(c, -1.0):
                margins[c] = m
        known.update(r["known"])
        for k, v in r["known_example"].items():
            known_example.setdefault(k, v)
        ps = per_sub.setdefault(
            r["sub"], dict(evaluations=0, nontrivial=0, strata=0, wall_cpu_s=0.0)
        )
        ps["evaluations"] += r["evals"]
        ps["nontrivial"] += r["nontrivial"]
        ps["strata"] += 1
        ps["wall_cpu_s"] = round(ps["wall_cpu_s"] + r["wall"], 2)
        for e in r["errors"]:
            errors.append((r["sub"], r.get("stratum"), e))
        for v in r["violations"]:
            violations.append((r["sub"], r.get("stratum"), v))
    # samples: spread over sub-checks
    by_sub = {}
    for r in sorted(results, key=lambda r: (r["sub"], r["sidx"])):
        for s in r["samples"]:
            by_sub.setdefault(r["sub"], []).append(
                dict(sub=r["sub"], stratum=r.get("stratum"), case=s)
            )
    for sname in sorted(by_sub):
        lst = by_sub[sname]
        step = max(1, len(lst) // 3)
        samples.extend(lst[::step][:3])

    # one reproduction per root cause: group by the key of the first failed claim and
    # keep the smallest failing case of each group
    groups = {}
    for sname, stratum, v in violations:
        k = (sname, v["fails"][0]["key"])
        cur = groups.get(k)
        if cur is None or len(jdump(v["case"])) < len(jdump(cur[2]["case"])):
            groups[k] = (sname, stratum, v)
    n_raw_violations = len(violations)
    violations = [groups[k] for k in sorted(groups)]
    replay_paths = []
    for sname, stratum, v in violations:
        p = write_replay(prop, sname, stratum, tier, seed, v)
        replay_paths.append((p, sname, stratum, v))

    wall = time.time() - t0
    exhaustive_subs = [s.name for s in subs if s.exhaustive]
    evidence = dict(
        property_id=prop,
        tier=tier,
        seed=seed,
        level="exploration",
        coverage=dict(
            evaluations=int(evals),
            distinct_nontrivial=int(len(hashes)),
            rule=getattr(mod, "RULE", ""),
            samples=samples[:24],
            per_subcheck=per_sub,
            claims_asserted=dict(sorted(nclaims.items())),
            worst_residual_over_tolerance=dict(
                sorted((k, float("%.3g" % v)) for k, v in margins.items())
            ),
            histogram=dict(sorted(tags.items())),
            exhaustive_subchecks=exhaustive_subs,
            known_findings_seen=dict(known),
            harness_errors=len(errors),
            processes=nproc,
            corpus_replayed=len(corpus),
            failing_units=n_raw_violations,
        ),
        assumptions=list(getattr(mod, "ASSUMPTIONS", [])),
        wall_s=round(wall, 2),
        violations=len(violations),
    )
    if exhaustive_subs and len(exhaustive_subs) == len(subs):
        evidence["coverage"]["exhaustive"] = True
    edir = os.environ.get("VERIF_EVIDENCE_DIR") or os.path.join(ROOT, "evidence")
    os.makedirs(edir, exist_ok=True)
    with open(os.path.join(edir, prop + ".json"), "w") as f:
        f.write(json.dumps(evidence, indent=1, sort_keys=True, default=_jdefault))

    # ---- report
    print(
        "%s %s seed=%d: %d cases, %d distinct non-trivial, %d claims asserted, %.1fs wall, %d procs"
        % (prop, tier, seed, evals, len(hashes), sum(nclaims.values()), wall, nproc)
    )
    for sname in sorted(per_sub):
        ps = per_sub[sname]
        print(
            "  %-28s cases=%-6d nontrivial=%-6d strata=%-4d cpu=%.0fs"
            % (sname, ps["evaluations"], ps["nontrivial"], ps["strata"], ps["wall_cpu_s"])
        )
    worst = sorted(margins.items(), key=lambda kv: -kv[1])[:5]
    if worst:
        print(
            "  worst residual/tolerance: "
            + ", ".join("%s=%.2g" % kv for kv in worst)
        )
    for e in open_known:
        if e.get("property") == prop:
            print(
                "KNOWN-FINDING: property=%s key=%s %s (seen in %d cases of this run)"
                % (prop, e["key"], e.get("what", ""), known.get(e["key"], 0))
            )
    for sname, stratum, e in errors:
        print("HARNESS-ERROR in %s/%s:\n%s" % (sname, stratum, e))
    for p, sname, stratum, v in replay_paths:
        f0 = v["fails"][0]
        print(
            "  failing claim %s key=%s resid=%.3g tol=%.3g %s [sub=%s stratum=%s, %d failed claims]"
            % (
                f0["claim"],
                f0["key"],
                f0["resid"],
                f0["tol"],
                f0["msg"][:200],
                sname,
                stratum,
                len(v["fails"]),
            )
        )
        print("VIOLATION property=%s replay=%s" % (prop, p))
    sys.stdout.flush()
    if violations:
        return 1
    if errors:
        return 2
    return 0


def replay(prop, path):
    with open(path) as f:
        rec = json.load(f)
    mod = load_module(prop)
    sub = get_sub(mod, rec["sub"])
    res = sub.check(rec["case"])
    open_known, _ = load_known()
    unl = [f for f in res.fails if is_known(prop, f, open_known) is None]
    print("replay %s sub=%s: %d failed claims (%d unlisted)" % (path, rec["sub"], len(res.fails), len(unl)))
    for f in res.fails:
        print("  ", jdump(f))
    for c, m in sorted(res.margins.items()):
        print("   margin %-40s %.3g" % (c, m))
    if unl:
        print("VIOLATION property=%s replay=%s" % (prop, path))
        return 1
    return 0
