"""CLI:  python -m pbt.run C07 quick|thorough | C07 --replay file | --list"""
import os
import sys


def main(argv):
    from pbt import core

    if not argv or argv[0] in ("-h", "--help"):
        print(__doc__)
        return 2
    if argv[0] == "--list":
        for p in core.PROPS:
            try:
                mod = core.load_module(p)
            except ModuleNotFoundError:
                print(p, "(no module)")
                continue
            print(p, ", ".join(s.name for s in mod.SUBS))
        return 0
    prop = argv[0].upper()
    if prop not in core.PROPS:
        print("unknown property", prop)
        return 2
    if len(argv) >= 3 and argv[1] == "--replay":
        return core.replay(prop, argv[2])
    tier = argv[1] if len(argv) > 1 else os.environ.get("VERIF_TIER", "quick")
    if tier not in ("quick", "thorough"):
        print("tier must be quick or thorough")
        return 2
    return core.run_property(prop, tier)


if __name__ == "__main__":
    try:
        rc = main(sys.argv[1:])
    except SystemExit:
        raise
    except BaseException:  # harness failure is never a violation
        import traceback

        traceback.print_exc()
        rc = 2
    sys.exit(rc)
