"""Sound configuration strategies for every exported stepper class (G-config of DESIGN.md).

A *family* is (class, flag variant).  `st_spec(family, D, N)` draws a spec
{"cls","D","N","L","dt","kw"} with documented keyword arguments of documented types in ranges
where one step is well-conditioned; `cap_growth` then bounds exp growth deterministically.
"""

from __future__ import annotations

import copy
import itertools
import math

import numpy as np
from hypothesis import strategies as st

from pbt import gens, model
from pbt import registry as reg


def _f(lo, hi):
    """float in [lo, hi]; if the range contains 0, magnitudes below 1e-3 of the range are flushed to exactly 0"""
    tiny = 1e-3 * max(abs(lo), abs(hi)) if lo < 0 < hi else 0.0
    return st.floats(lo, hi, allow_nan=False).map(lambda x: float("%.5g" % x) if abs(x) >= tiny else 0.0)


def _pm(lo, hi):
    return gens.nonzero_coef(lo, hi)


def _lin_coefs(maxlen=5):
    """generic coefficient list a_0..a_m, m in 0..6 (tuple lengths 1..7; the documentation allows any length);
    the even-order terms of order >= 2 are dissipative (a_2 > 0, a_4 < 0, a_6 > 0) unless the
    Kuramoto-Sivashinsky-like variant is drawn; lists of length 1 and 2 have no dissipation at all"""

    def build(t):
        a0, a1, a2, a3, a4, a5, a6, m, ks = t
        a = [a0, a1, a2, a3, -abs(a4), a5, abs(a6)]
        if ks and m in (2, 3, 4):  # Kuramoto-Sivashinsky like: negative diffusion stabilised by the 4th order
            a[2] = -abs(a2)
            m = 4
        else:
            a[2] = abs(a2)
        return [float(x) for x in a[: m + 1]]

    return st.tuples(
        st.one_of(st.just(0.0), _pm(0.05, 0.5)),
        st.one_of(st.just(0.0), _pm(0.05, 1.0)),
        _f(0.005, 0.2),
        st.one_of(st.just(0.0), _pm(0.001, 0.05)),
        _f(1e-5, 1e-3),
        st.one_of(st.just(0.0), _pm(1e-7, 1e-5)),
        _f(1e-9, 1e-6),
        st.sampled_from([2, 3, 4, 4, 2, 3, 1, 5, 6, 0]),
        st.booleans(),
    ).map(build)


# family name -> (class, dims, fixed kw, strategy of drawn kw, kind)
def _families():
    F = {}
    conv_flags = list(itertools.product([False, True], [False, True]))
    for sc, co in conv_flags:
        tag = ("s" if sc else "m") + ("c" if co else "n")
        F["Burgers_" + tag] = ("Burgers", (1, 2, 3), dict(single_channel=sc, conservative=co),
                               dict(diffusivity=_f(0.01, 0.5), convection_scale=_pm(0.2, 2.0)))  # fmt: skip
        F["KSCons_" + tag] = ("KuramotoSivashinskyConservative", (1, 2, 3), dict(single_channel=sc, conservative=co),
                              dict(convection_scale=_pm(0.2, 2.0), second_order_scale=_f(0.5, 1.5), fourth_order_scale=_f(0.5, 1.5)))  # fmt: skip
        F["GenConv_" + tag] = ("GeneralConvectionStepper", (1, 2, 3), dict(single_channel=sc, conservative=co),
                               dict(linear_coefficients=_lin_coefs(), convection_scale=_pm(0.2, 2.0)))  # fmt: skip
    for i, (sc, co, ad, dd) in enumerate(itertools.product([False, True], repeat=4)):
        tag = ("s" if sc else "m") + ("c" if co else "n") + ("A" if ad else "a") + ("D" if dd else "d")
        F["KdV_" + tag] = ("KortewegDeVries", (1, 2, 3), dict(single_channel=sc, conservative=co, advect_over_diffuse=ad, diffuse_over_diffuse=dd),
                           dict(convection_scale=_pm(0.5, 6.0), diffusivity=st.one_of(st.just(0.0), _f(0.001, 0.1)), dispersivity=_pm(0.05, 1.0), hyper_diffusivity=_f(1e-4, 0.02)))  # fmt: skip
    F["KS"] = ("KuramotoSivashinsky", (1, 2, 3), {}, dict(gradient_norm_scale=_pm(0.3, 2.0), second_order_scale=_f(0.5, 1.5), fourth_order_scale=_f(0.5, 1.5)))
    F["NSVort"] = ("NavierStokesVorticity", (2,), {}, dict(diffusivity=_f(0.001, 0.1), vorticity_convection_scale=_pm(0.3, 2.0), drag=st.one_of(st.just(0.0), _f(-0.5, 0.2))))
    # forcing amplitudes: O(1), and occasionally tiny ones (the response is linear in gamma; nothing may treat a small gamma as "no forcing")
    _INJ = st.one_of(_pm(0.2, 2.0), _pm(0.2, 2.0), _pm(0.2, 2.0), st.tuples(gens.log_floats(1e-13, 1e-6), st.sampled_from([1.0, -1.0])).map(lambda t: float("%.4g" % (t[0] * t[1]))))
    F["KolmVort"] = ("KolmogorovFlowVorticity", (2,), {}, dict(diffusivity=_f(0.001, 0.1), convection_scale=_pm(0.3, 2.0), drag=st.one_of(st.just(0.0), _f(-0.5, 0.2)), injection_scale=_INJ, injection_mode="MODE"))
    F["NSVel"] = ("NavierStokesVelocity", (3,), {}, dict(diffusivity=_f(0.001, 0.1), drag=st.one_of(st.just(0.0), _f(-0.5, 0.2))))
    F["KolmVel"] = ("KolmogorovFlowVelocity", (3,), {}, dict(diffusivity=_f(0.001, 0.1), drag=st.one_of(st.just(0.0), _f(-0.5, 0.2)), injection_scale=_INJ, injection_mode="MODE"))
    F["Fisher"] = ("FisherKPP", (1, 2, 3), {}, dict(diffusivity=_f(0.001, 0.1), reactivity=_f(0.2, 3.0)))
    F["AllenCahn"] = ("AllenCahn", (1, 2, 3), {}, dict(diffusivity=_f(0.001, 0.1), first_order_coefficient=_f(0.2, 2.0), third_order_coefficient=_f(-2.0, -0.2)))
    F["CahnHilliard"] = ("CahnHilliard", (1, 2, 3), {}, dict(diffusivity=_f(0.001, 0.05), gamma=_f(1e-4, 1e-2), first_order_coefficient=_f(-2.0, -0.2), third_order_coefficient=_f(0.2, 2.0)))
    F["GrayScott"] = ("GrayScott", (1, 2, 3), {}, dict(diffusivity_1=_f(1e-5, 1e-2), diffusivity_2=_f(1e-5, 1e-2), feed_rate=_f(0.01, 0.1), kill_rate=_f(0.03, 0.07)))
    F["SwiftHohenberg"] = ("SwiftHohenberg", (1, 2, 3), {}, dict(reactivity=_f(0.1, 1.0), critical_number=_f(0.5, 2.0), polynomial_coefficients=st.tuples(st.just(0.0), st.just(0.0), gens.coef(-1.5, 1.5), _f(-2.0, -0.3)).map(list)))
    # generic families (General / Normalized / Difficulty) are derived from physical draws in st_spec
    F["GenGradNorm"] = ("GeneralGradientNormStepper", (1, 2, 3), {}, dict(linear_coefficients=_lin_coefs(), gradient_norm_scale=_pm(0.3, 2.0)))
    F["GenPoly"] = ("GeneralPolynomialStepper", (1, 2, 3), {}, dict(linear_coefficients=_lin_coefs(), polynomial_coefficients=st.tuples(st.just(0.0), st.just(0.0), _pm(0.2, 2.0)).map(list)))
    F["GenPoly3"] = ("GeneralPolynomialStepper", (1, 2, 3), dict(dealiasing_fraction=0.5), dict(linear_coefficients=_lin_coefs(), polynomial_coefficients=st.tuples(gens.coef(-0.5, 0.5), st.just(0.0), gens.coef(-1, 1), _f(-2.0, -0.2)).map(list)))
    F["GenNonlin"] = ("GeneralNonlinearStepper", (1, 2, 3), {}, dict(linear_coefficients=_lin_coefs(), nonlinear_coefficients=st.tuples(st.one_of(st.just(0.0), _pm(0.1, 1.0)), st.one_of(st.just(0.0), _pm(0.2, 2.0)), st.one_of(st.just(0.0), _pm(0.2, 2.0))).map(list)))
    F["GenVort"] = ("GeneralVorticityConvectionStepper", (2,), {}, dict(linear_coefficients=_lin_coefs(), vorticity_convection_scale=_pm(0.3, 2.0)))
    F["GenVortInj"] = ("GeneralVorticityConvectionStepper", (2,), {}, dict(linear_coefficients=_lin_coefs(), vorticity_convection_scale=_pm(0.3, 2.0), injection_scale=_INJ, injection_mode="MODE"))
    return F


FAMILIES = _families()

# derived normalized / difficulty families: name -> (base family, target class)
DERIVED = {}
for base in [k for k in FAMILIES if k.startswith("GenConv_")]:
    DERIVED["Norm" + base[3:]] = (base, "NormalizedConvectionStepper")
    DERIVED["Diff" + base[3:]] = (base, "DifficultyConvectionStepper")
for base, stem in (("GenGradNorm", "GradNorm"), ("GenPoly", "Poly"), ("GenNonlin", "Nonlin")):
    DERIVED["Norm" + stem] = (base, "Normalized%sStepper" % {"GradNorm": "GradientNorm", "Poly": "Polynomial", "Nonlin": "Nonlinear"}[stem])
    DERIVED["Diff" + stem] = (base, "Difficulty%sStepper" % {"GradNorm": "GradientNorm", "Poly": "Polynomial", "Nonlin": "Nonlinear"}[stem])

LINEAR_FAMILIES = {
    "Advection": ("Advection", (1, 2, 3), {}, dict(velocity=_pm(0.1, 2.0))),
    "Diffusion": ("Diffusion", (1, 2, 3), {}, dict(diffusivity=_f(0.005, 0.5))),
    "AdvectionDiffusion": ("AdvectionDiffusion", (1, 2, 3), {}, dict(velocity=_pm(0.1, 2.0), diffusivity=_f(0.005, 0.5))),
    "Dispersion": ("Dispersion", (1, 2, 3), {}, dict(dispersivity=_pm(0.01, 0.5), advect_on_diffusion=st.booleans())),
    "HyperDiffusion": ("HyperDiffusion", (1, 2, 3), {}, dict(hyper_diffusivity=_f(1e-5, 1e-2), diffuse_on_diffuse=st.booleans())),
    "Wave": ("Wave", (1, 2, 3), {}, dict(speed_of_sound=st.one_of(_f(0.2, 3.0), _f(0.2, 3.0), _pm(0.2, 3.0), st.just(0.0)))),
    "GenLin": ("GeneralLinearStepper", (1, 2, 3), {}, dict(linear_coefficients=_lin_coefs())),
    "NormLin": ("NormalizedLinearStepper", (1, 2, 3), {}, dict(normalized_linear_coefficients=_lin_coefs().map(lambda a: [x * 0.1 for x in a]))),
    "DiffLin": ("DifficultyLinearStepper", (1, 2, 3), {}, dict(linear_difficulties=_lin_coefs().map(lambda a: [x * 2.0 for x in a]))),
    "DiffLinSimple": ("DifficultyLinearStepperSimple", (1, 2, 3), {}, dict(difficulty=_f(-5.0, -0.1), order=st.sampled_from([2, 4]))),
}

ALL_FAMILIES = list(FAMILIES) + list(DERIVED) + list(LINEAR_FAMILIES)


def family_info(name):
    """(class name, dims)"""
    if name in FAMILIES:
        return FAMILIES[name][0], FAMILIES[name][1]
    if name in DERIVED:
        base, cls = DERIVED[name]
        return cls, FAMILIES[base][1]
    return LINEAR_FAMILIES[name][0], LINEAR_FAMILIES[name][1]


def is_linear_family(name):
    return name in LINEAR_FAMILIES


CONTOURS = [(1.0, 16), (1.0, 16), (1.0, 16), (1.0, 32), (0.5, 16), (2.0, 32), (1.5, 24)]


def st_spec(name, D, N, *, orders=(1, 2, 3, 4), dt=None, L=None, contour=False, frac_choice=False):
    """strategy of specs of one family on a fixed (D, N)"""
    if name in LINEAR_FAMILIES:
        cls, dims, fixed, drawn = LINEAR_FAMILIES[name]
        base = None
    elif name in FAMILIES:
        cls, dims, fixed, drawn = FAMILIES[name]
        base = None
    else:
        base, cls = DERIVED[name]
        _, dims, fixed, drawn = FAMILIES[base]
    kmax = max(1, (N - 1) // 2)
    d = {}
    for k, v in drawn.items():
        d[k] = st.integers(1, kmax) if isinstance(v, str) and v == "MODE" else v
    extra = {}
    if name not in LINEAR_FAMILIES:
        # Hypothesis tries the first element first: start with the default order 2, order 0 last
        extra["order"] = st.sampled_from(sorted(orders, key=lambda o: (o == 0, o != 2, o)))
        if contour:
            extra["_contour"] = st.sampled_from(CONTOURS)
        if frac_choice and "dealiasing_fraction" not in fixed:
            extra["dealiasing_fraction"] = st.sampled_from([2 / 3, 2 / 3, 0.5] if frac_choice is True else list(frac_choice))
    s = st.fixed_dictionaries(
        dict(
            kw=st.fixed_dictionaries({**d, **extra}),
            L=L if L is not None else gens.st_L(0.5, 30.0),
            dt=dt if dt is not None else gens.log_floats(1e-3, 0.5),
            M=_f(0.5, 3.0),
            argtype=st.sampled_from(["float", "float", "float", "float", "int"]),
        )
    )

    def _intify(v):
        # plain Python ints are legitimate coefficient / extent values (diffusivity=1, domain_extent=10)
        if isinstance(v, bool) or not isinstance(v, float):
            return v
        return int(round(v)) if abs(v) >= 0.75 and abs(v) < 1e6 else v

    def build(t):
        kw = dict(fixed)
        kw.update(t["kw"])
        if t["argtype"] == "int":
            t = dict(t, L=_intify(t["L"]))
            kw = {k: (_intify(v) if k not in ("dealiasing_fraction", "circle_radius", "_contour") else v) for k, v in kw.items()}
        c = kw.pop("_contour", None)
        if c is not None:
            kw["circle_radius"], kw["num_circle_points"] = c
        spec = dict(cls=FAMILIES[base][0] if base else cls, D=D, N=N, L=t["L"], dt=t["dt"], kw=kw)
        spec = cap_growth(spec)
        if base:
            spec = convert_generic(spec, cls, t["M"])
        return spec

    return s.map(build)


def cap_growth(spec, cap=5.0):
    """deterministically reduce dt so that max Re(lambda*dt) <= cap over all stored modes"""
    if spec["cls"] in reg.NO_L_DT or spec["cls"] == "Wave":
        return spec
    D, N = spec["D"], spec["N"]
    kap = 2 * math.pi / spec["L"] * np.asarray(__import__("pbt.oracles", fromlist=["x"]).rfft_wavenumbers(D, N))
    lam = model.symbol(spec, kap)
    g = float(np.max(lam.real)) * spec["dt"]
    if g > cap:
        spec = dict(spec, dt=float("%.6g" % (spec["dt"] * cap / g)))
    return spec


def convert_generic(spec, target_cls, M):
    """documented conversion of a General*Stepper spec into the equivalent Normalized / Difficulty spec"""
    kw = copy.deepcopy(spec["kw"])
    D, N, L, dt = spec["D"], spec["N"], spec["L"], spec["dt"]
    a = kw.pop("linear_coefficients")
    alpha = [x * dt / L**j for j, x in enumerate(a)]
    norm = target_cls.startswith("Normalized")
    out = {}
    if norm:
        out["normalized_linear_coefficients"] = alpha
    else:
        out["linear_difficulties"] = [x if j == 0 else x * N**j * 2 ** (j - 1) * D for j, x in enumerate(alpha)]
    if "convection_scale" in kw:
        b = kw.pop("convection_scale") * dt / L
        if norm:
            out["normalized_convection_scale"] = b
        else:
            out["convection_difficulty"] = b * M * N * D
            out["maximum_absolute"] = M
    if "gradient_norm_scale" in kw:
        b = kw.pop("gradient_norm_scale") * dt / L**2
        if norm:
            out["normalized_gradient_norm_scale"] = b
        else:
            out["gradient_norm_difficulty"] = b * M * N**2 * D
            out["maximum_absolute"] = M
    if "polynomial_coefficients" in kw:
        p = [x * dt for x in kw.pop("polynomial_coefficients")]
        out["normalized_polynomial_coefficients" if norm else "polynomial_difficulties"] = p
    if "nonlinear_coefficients" in kw:
        b0, b1, b2 = kw.pop("nonlinear_coefficients")
        nb = [b0 * dt, b1 * dt / L, b2 * dt / L**2]
        if norm:
            out["normalized_nonlinear_coefficients"] = nb
        else:
            out["nonlinear_difficulties"] = [nb[0], nb[1] * M * N * D, nb[2] * M * N**2 * D]
            out["maximum_absolute"] = M
    out.update(kw)  # flags, order, dealiasing fraction, contour options
    return dict(cls=target_cls, D=D, N=N, L=1.0, dt=1.0, kw=out)


def st_state_for(spec_or_C, D, N, *, amp=(0.1, 1.0), kinds=("white", "nyqfree")):
    C = spec_or_C if isinstance(spec_or_C, int) else model.num_channels(spec_or_C)
    return st.one_of(*[gens.st_white(amp[0], amp[1], kind=k) for k in kinds]), C
