"""Registry of the exported stepper classes: how to build them from a JSON spec and
the *documented* linear symbol of each (written from the docstrings, NumPy only).

spec = {"cls": <class name>, "D": int, "N": int, "L": float, "dt": float,
        "kw": {keyword arguments; vectors/matrices as nested lists}}
Normalized*/Difficulty* classes ignore L and dt (they are L = 1, dt = 1 by definition).
"""

from __future__ import annotations

import contextlib
import io
import math

import numpy as np

ARRAY_KW = ("velocity", "diffusivity", "dispersivity")
TUPLE_KW = (
    "linear_coefficients",
    "normalized_linear_coefficients",
    "linear_difficulties",
    "polynomial_coefficients",
    "normalized_polynomial_coefficients",
    "polynomial_difficulties",
    "nonlinear_coefficients",
    "normalized_nonlinear_coefficients",
    "nonlinear_difficulties",
)

NO_L_DT = (
    "NormalizedLinearStepper",
    "DifficultyLinearStepper",
    "DifficultyLinearStepperSimple",
    "NormalizedConvectionStepper",
    "DifficultyConvectionStepper",
    "NormalizedGradientNormStepper",
    "DifficultyGradientNormStepper",
    "NormalizedPolynomialStepper",
    "DifficultyPolynomialStepper",
    "NormalizedNonlinearStepper",
    "DifficultyNonlinearStepper",
)


def get_class(name):
    import exponax as ex

    for mod in (ex.stepper, ex.stepper.generic, ex.stepper.reaction):
        if hasattr(mod, name):
            return getattr(mod, name)
    raise KeyError(name)


def exported_stepper_classes():
    """all exported stepper classes, enumerated from the package's __all__"""
    import inspect

    import exponax as ex

    out = []
    for mod in (ex.stepper, ex.stepper.generic, ex.stepper.reaction):
        for n in mod.__all__:
            o = getattr(mod, n)
            if inspect.isclass(o) and issubclass(o, ex.BaseStepper):
                out.append(n)
    return out


def convert_kw(kw):
    import jax.numpy as jnp

    out = {}
    for k, v in kw.items():
        if k in ARRAY_KW and isinstance(v, (list, tuple)):
            out[k] = jnp.asarray(np.asarray(v, dtype=float))
        elif k in TUPLE_KW:
            out[k] = tuple(float(x) for x in v)
        else:
            out[k] = v
    return out


def build(spec, **override):
    """construct the exponax stepper of a spec (stdout of chatty constructors swallowed)"""
    cls = get_class(spec["cls"])
    kw = convert_kw(spec.get("kw", {}))
    kw.update(override.pop("kw", {}))
    D, N = spec["D"], spec["N"]
    L = override.get("L", spec.get("L"))
    dt = override.get("dt", spec.get("dt"))
    if spec["cls"].startswith("Normalized"):
        # documented workflow: normalized coefficients are what the public normalize_* helpers return.  The values
        # pass through the helper with domain_extent = dt = 1 (numerically the identity), so that the OBJECT the
        # helper returns (tuple, not a one-shot iterator, ...) is what the stepper receives
        G = __import__("exponax").stepper.generic
        for k_, fn_ in (("normalized_linear_coefficients", G.normalize_coefficients), ("normalized_polynomial_coefficients", G.normalize_polynomial_scales)):
            if k_ in kw and isinstance(kw[k_], tuple):
                kw[k_] = fn_(kw[k_], domain_extent=1.0, dt=1.0)
    def _floatify(v):
        if isinstance(v, bool) or not isinstance(v, int):
            return tuple(_floatify(x) for x in v) if isinstance(v, tuple) else v
        return float(v)

    with contextlib.redirect_stdout(io.StringIO()):
        if spec["cls"] in NO_L_DT:
            return cls(D, N, **kw)
        try:
            return cls(D, L, N, dt, **kw)
        except (TypeError, AttributeError):
            # integer-typed extents / coefficients (configs: argtype "int") are passed as Python ints where the
            # constructor takes them; where it insists on the documented float (e.g. Advection(velocity=1) ->
            # AttributeError) the same values are passed as floats - no listed property is about argument types,
            # the oracles only compare values
            kwf = {k: (_floatify(v) if k not in ("injection_mode", "order", "num_circle_points") else v) for k, v in kw.items()}
            Lf = float(L) if isinstance(L, int) and not isinstance(L, bool) else L
            def _has_int(v):
                return (isinstance(v, int) and not isinstance(v, bool)) or (isinstance(v, tuple) and any(_has_int(x) for x in v))

            if not (_has_int(L) or any(_has_int(v) for k, v in kw.items() if k not in ("injection_mode", "order", "num_circle_points"))):
                raise
            return cls(D, Lf, N, dt, **kwf)


def eff_L_dt(spec):
    if spec["cls"] in NO_L_DT:
        return 1.0, 1.0
    return float(spec["L"]), float(spec["dt"])


# --------------------------------------------------------------------------
# documented linear symbols (kap: (D, ...) array of 2*pi*k/L)


def _vec(x, D):
    if isinstance(x, (int, float)):
        return np.ones(D) * float(x)
    return np.asarray(x, dtype=float)


def _mat(x, D):
    if isinstance(x, (int, float)):
        return np.eye(D) * float(x)
    x = np.asarray(x, dtype=float)
    if x.ndim == 1:
        return np.diag(x)
    return x


def generic_symbol(coeffs, kap):
    """sum_j a_j sum_d (i kap_d)^j   (a_0 enters D times: 1.grad^0 = sum_d 1)"""
    lam = np.zeros(kap.shape[1:], dtype=complex)
    for j, a in enumerate(coeffs):
        lam = lam + a * ((1j * kap) ** j).sum(0)
    return lam


def difficulty_to_normalized(gammas, D, N):
    """documented: alpha_0 = gamma_0, alpha_j = gamma_j / (N^j 2^(j-1) D)"""
    return [g if j == 0 else g / (N**j * 2.0 ** (j - 1) * D) for j, g in enumerate(gammas)]


def linear_coeffs_of(spec):
    """for the generic families: physical coefficient list on (L, dt) = eff_L_dt(spec)"""
    kw = spec.get("kw", {})
    D, N = spec["D"], spec["N"]
    if "linear_coefficients" in kw:
        return list(kw["linear_coefficients"])
    if "normalized_linear_coefficients" in kw:
        return list(kw["normalized_linear_coefficients"])
    if "linear_difficulties" in kw:
        return difficulty_to_normalized(kw["linear_difficulties"], D, N)
    if spec["cls"] == "DifficultyLinearStepperSimple":
        order = kw.get("order", 1)
        return difficulty_to_normalized([0.0] * order + [kw.get("difficulty", -2.0)], D, N)
    raise KeyError(spec["cls"])


def linear_symbol(spec, kap):
    """documented symbol lambda(kap) of the scalar linear steppers (not Wave)"""
    cls = spec["cls"]
    kw = spec.get("kw", {})
    D = spec["D"]
    k2 = (kap**2).sum(0)
    if cls == "Advection":
        c = _vec(kw.get("velocity", 1.0), D)
        return -1j * np.tensordot(c, kap, axes=1)
    if cls == "Diffusion":
        A = _mat(kw.get("diffusivity", 0.01), D)
        return -np.einsum("i...,ij,j...->...", kap, A, kap) + 0j
    if cls == "AdvectionDiffusion":
        c = _vec(kw.get("velocity", 1.0), D)
        A = _mat(kw.get("diffusivity", 0.01), D)
        return -1j * np.tensordot(c, kap, axes=1) - np.einsum("i...,ij,j...->...", kap, A, kap)
    if cls == "Dispersion":
        xi = _vec(kw.get("dispersivity", 1.0), D)
        if kw.get("advect_on_diffusion", False):
            # xi . grad(Laplace u)
            return (1j * np.tensordot(xi, kap, axes=1)) * (-k2)
        return np.tensordot(xi, (1j * kap) ** 3, axes=1)
    if cls == "HyperDiffusion":
        z = kw.get("hyper_diffusivity", 0.0001)
        if kw.get("diffuse_on_diffuse", False):
            return -z * k2**2 + 0j
        return -z * (kap**4).sum(0) + 0j
    if cls in (
        "GeneralLinearStepper",
        "NormalizedLinearStepper",
        "DifficultyLinearStepper",
        "DifficultyLinearStepperSimple",
    ):
        return generic_symbol(linear_coeffs_of(spec), kap)
    raise KeyError(cls)


def linear_symbol_mag(spec, kap):
    """sum of the absolute values of the terms that make up the symbol: the scale of the
    rounding error of lambda (cancellation between terms does not reduce it)"""
    cls = spec["cls"]
    kw = spec.get("kw", {})
    D = spec["D"]
    ak = np.abs(kap)
    k2 = (kap**2).sum(0)
    if cls == "Advection":
        return np.tensordot(np.abs(_vec(kw.get("velocity", 1.0), D)), ak, axes=1)
    if cls == "Diffusion":
        return np.einsum("i...,ij,j...->...", ak, np.abs(_mat(kw.get("diffusivity", 0.01), D)), ak)
    if cls == "AdvectionDiffusion":
        return np.tensordot(np.abs(_vec(kw.get("velocity", 1.0), D)), ak, axes=1) + np.einsum(
            "i...,ij,j...->...", ak, np.abs(_mat(kw.get("diffusivity", 0.01), D)), ak
        )
    if cls == "Dispersion":
        xi = np.abs(_vec(kw.get("dispersivity", 1.0), D))
        if kw.get("advect_on_diffusion", False):
            return np.tensordot(xi, ak, axes=1) * k2
        return np.tensordot(xi, ak**3, axes=1)
    if cls == "HyperDiffusion":
        z = abs(kw.get("hyper_diffusivity", 0.0001))
        if kw.get("diffuse_on_diffuse", False):
            return z * k2**2
        return z * (kap**4).sum(0)
    if cls == "Wave":
        return abs(kw.get("speed_of_sound", 1.0)) * np.sqrt(k2)
    out = np.zeros(kap.shape[1:])
    for j, a in enumerate(linear_coeffs_of(spec)):
        out = out + abs(a) * (ak**j).sum(0)
    return out


def kappa(D, N, L, layout="rfft"):
    from pbt import oracles as orc

    k = orc.rfft_wavenumbers(D, N) if layout == "rfft" else orc.fft_wavenumbers(D, N)
    return 2 * math.pi / L * k


def below_nyquist_mask(D, N, layout="rfft"):
    from pbt import oracles as orc

    k = orc.rfft_wavenumbers(D, N) if layout == "rfft" else orc.fft_wavenumbers(D, N)
    return np.all(np.abs(k) < N / 2, axis=0)
