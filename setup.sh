#!/bin/bash
# Offline setup: make sure hypothesis is importable by the repository's interpreter.
set -e
PY="${VERIF_PYTHON:-/venv/bin/python}"
if ! "$PY" -c "import hypothesis" 2>/dev/null; then
  "$PY" -m pip install --no-index --find-links /opt/veriftools/wheels hypothesis
fi
"$PY" -c "import hypothesis, numpy, scipy, jax; print('setup ok: hypothesis', hypothesis.__version__)"
