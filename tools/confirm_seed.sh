#!/bin/bash
# usage: tools/confirm_seed.sh <PID> <mi> [props to run, default PID]
# Confirms a sub-agent's seeded change independently and runs the checks against it:
#  1. applies /tmp/seeded_out/<PID>/<mi>/patch.diff to a fresh scratch worktree of /repo HEAD (never /repo itself)
#  2. demo.py must pass on the clean tree and fail on the patched tree
#  3. the repository's test-suite must still pass on the patched tree (only the known always-failing test may fail)
#  4. runs ./vcheck <prop> quick against the patched tree (VERIF_REPO) and records DETECTED/MISSED
#  5. writes /verif/seeded/<PID>-<mi>/{patch.diff,demo.py,meta.json} and removes the worktree
set -u
here="$(cd "$(dirname "$0")/.." && pwd)"
pid="$1"; mi="$2"; shift 2
props="${*:-$pid}"
src="/tmp/seeded_out/$pid/$mi"
wt="/tmp/cs_${pid}_${mi}"
out="$here/seeded/$pid-$mi"
[ -f "$src/patch.diff" ] || { echo "no patch for $pid $mi"; exit 2; }
git -C /repo worktree remove --force "$wt" 2>/dev/null
git -C /repo worktree add -q --detach "$wt" HEAD || exit 2
cleanup() { git -C /repo worktree remove --force "$wt" 2>/dev/null; rm -rf "$wt"; }
trap cleanup EXIT
if ! git -C "$wt" apply "$src/patch.diff"; then echo "SEED $pid $mi: PATCH DOES NOT APPLY"; exit 2; fi
run_demo() { (cd /tmp && PYTHONPATH="$1" JAX_ENABLE_X64=1 JAX_PLATFORMS=cpu timeout 600 /venv/bin/python "$src/demo.py" >/tmp/cs_demo_$$.log 2>&1); echo $?; }
d_clean=$(run_demo /repo)
d_patch=$(run_demo "$wt")
suite_log="/tmp/cs_suite_${pid}_${mi}.log"
if [ "${SKIP_SUITE:-0}" = "1" ]; then suite="skipped"; else
(cd "$wt" && PYTHONPATH="$wt" timeout 3000 /venv/bin/python -m pytest -q -p no:cacheprovider -n "${SUITE_PROCS:-8}" --deselect tests/test_nonlinear_funs.py::TestGradientNormAdditional::test_2d >"$suite_log" 2>&1)
suite_rc=$?
suite="rc=$suite_rc $(grep -E '[0-9]+ passed' "$suite_log" | tail -1)"
fi
results=""
for p in $props; do
  t0=$(date +%s)
  o="$(cd "$here" && VERIF_REPO="$wt" VERIF_EVIDENCE_DIR=/tmp/cs_ev_$$ VERIF_FOUND_DIR=/tmp/cs_found_$$ ./vcheck "$p" quick 2>&1)"; rc=$?
  t1=$(date +%s)
  first="$(echo "$o" | grep 'failing claim' | head -1 | cut -c1-260)"
  if [ $rc -eq 1 ]; then r="DETECTED"; elif [ $rc -eq 0 ]; then r="MISSED"; else r="ERROR(rc=$rc)"; fi
  results="$results$p:$r:$((t1-t0))s "
  echo "SEED $pid $mi check $p -> $r ($((t1-t0))s) $first"
done
rm -rf /tmp/cs_ev_$$ /tmp/cs_found_$$ /tmp/cs_demo_$$.log
echo "SEED $pid $mi demo clean=$d_clean patched=$d_patch suite: $suite checks: $results"
mkdir -p "$out"
cp "$src/patch.diff" "$src/demo.py" "$out/"
/venv/bin/python - "$src/meta.json" "$out/meta.json" "$d_clean" "$d_patch" "$suite" "$results" <<'PY'
import json,sys
try: m=json.load(open(sys.argv[1]))
except Exception as e: m={"error":"agent meta unreadable: %s"%e}
m["confirmed_by_verifier"]={"demo_exit_clean_tree":int(sys.argv[3]),"demo_exit_patched_tree":int(sys.argv[4]),"repo_test_suite_on_patched_tree":sys.argv[5],"quick_checks":sys.argv[6].split()}
json.dump(m,open(sys.argv[2],'w'),indent=1)
PY
