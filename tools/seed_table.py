#!/usr/bin/env python3
"""Generates seeded/RESULTS.md from seeded/*/meta.json (and the optional cross matrix
seeded/cross_matrix.json written by tools/cross_matrix.sh)."""
import glob
import json
import os

ROOT = os.path.dirname(os.path.dirname(os.path.abspath(__file__)))


def main():
    rows = []
    cross = {}
    cm = os.path.join(ROOT, "seeded", "cross_matrix.json")
    if os.path.exists(cm):
        cross = json.load(open(cm))
    for d in sorted(glob.glob(os.path.join(ROOT, "seeded", "C*-m*"))):
        sid = os.path.basename(d)
        try:
            m = json.load(open(os.path.join(d, "meta.json")))
        except Exception as e:  # noqa: BLE001
            rows.append((sid, "meta unreadable: %s" % e, "", "", "", ""))
            continue
        conf = m.get("confirmed_by_verifier", {})
        checks = " ".join(conf.get("quick_checks", []))
        demo = "clean=%s patched=%s" % (conf.get("demo_exit_clean_tree"), conf.get("demo_exit_patched_tree"))
        suite = conf.get("repo_test_suite_on_patched_tree", "")
        suite = suite.split(" in ")[0].replace("rc=0 ", "")
        extra = " ".join("%s:%s" % (k, v) for k, v in sorted(cross.get(sid, {}).items()))
        rows.append((sid, " ".join(str(m.get("summary", "")).split())[:420], " ".join(str(m.get("needs_to_manifest", "")).split())[:300], demo, suite, (checks + " " + extra).strip()))
    out = [
        "# Seeded changes (independent sub-agents) and which checks flag them",
        "",
        "Each change was confirmed by `tools/confirm_seed.sh`: the demonstration exits 0 on the clean tree and non-zero on the",
        "patched tree, the repository's test-suite passes on the patched tree, and the quick check(s) were run against the",
        "patched tree (`VERIF_REPO`). `DETECTED` = exit 1 with a VIOLATION line; `MISSED` = exit 0.",
        "A later re-run of the same seed overwrites its entry (the history of misses and the strengthening that",
        "followed is in DESIGN.md section 8.5).",
        "",
        "| seed | change | needs to manifest | demo exit | repo suite (patched) | quick checks |",
        "|------|--------|-------------------|-----------|----------------------|--------------|",
    ]
    for r in rows:
        out.append("| " + " | ".join(x.replace("|", "/") for x in r) + " |")
    det = sum(1 for r in rows if ("%s:DETECTED" % r[0].split("-")[0]) in r[5])
    out += ["", "%d seeded changes; %d flagged by the quick check of their own property." % (len(rows), det), ""]
    with open(os.path.join(ROOT, "seeded", "RESULTS.md"), "w") as f:
        f.write("\n".join(out))
    print("seeded/RESULTS.md: %d rows, %d detected by own check" % (len(rows), det))


if __name__ == "__main__":
    main()
