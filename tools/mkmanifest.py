#!/usr/bin/env python3
"""Regenerates /verif/MANIFEST.json from the table below and from which property
modules exist.  Run after adding a property module:  python3 tools/mkmanifest.py"""
import json
import os
import subprocess

ROOT = os.path.dirname(os.path.dirname(os.path.abspath(__file__)))

TRUST = (
    "Trusted base: NumPy (FFT, linear algebra) and the oracle code in pbt/oracles.py / the property "
    "module, Hypothesis 6.168 as the generator; float64 session unless stated. Exploration only: "
    "agreement on the generated cases, no claim of absence."
)

# id -> (technique, level text, design ref)
TABLE = {
    "C01": (
        "Hypothesis PBT vs closed-form solution (analytic symbol per mode, exact solution of trig polynomials), semigroup/reversal metamorphic relations",
        "Every stored mode below Nyquist of every linear stepper class/variant is compared with exp(dt*symbol) written independently from the documented PDE, and physical-space steps of generated trigonometric polynomials with the analytic solution, over D=1..3, odd/even N, L, dt in +-[1e-6,1e6]; semigroup and reversal as metamorphic relations. Grid sizes: enumerated small N plus an 'any N' stratum (wide range incl. floating-point-delicate sizes) and production-size 1D grids (512..6000); generic coefficient lists up to order 8; wave speed c in R incl. 0 and c < 0.",
        "4/C01",
    ),
    "C02": (
        "Hypothesis PBT, differential against an independent NumPy reference (Cox-Matthews ETDRK-p with exact phi functions + documented symbol + documented nonlinearity); convergence-order measurement against scipy solve_ivp",
        "One ETDRK step of the public integrators and of every semi-linear stepper family is compared per mode with a reference implementation built on exact phi functions for real, imaginary, complex, zero and stiff symbols (real symbols also as real-dtype operator arrays); construction/call histories A, B, A of configurations differing in one argument ('siblings') against the reference model of each; measured convergence order corroborates.",
        "4/C02",
    ),
    "C03": (
        "Hypothesis PBT, differential against an alias-free fine-grid (4N) evaluation of the documented continuous operator",
        "Each nonlinear term is compared on the retained band with the documented operator evaluated without aliasing on a 4x finer grid, exact zero outside the documented band, for contiguous N ranges covering all residues mod 12. Grid sizes: enumerated small N plus an 'any N' stratum (wide range incl. floating-point-delicate sizes).",
        "4/C03",
    ),
    "C04": (
        "exhaustive enumeration of the finite conventions + Hypothesis PBT of plane waves/round trips against analytic DFT values",
        "The finite conventions (wavenumbers, scalings, masks for every cutoff, mode slices, grid) are enumerated completely per (D,N,indexing) against a NumPy oracle; every signed wavenumber vector of the grid is checked as a plane wave with generated amplitude/phase/L under all scalings and both indexings. Arrays and masks additionally for every N <= 300 in 1D and selected large 2D/3D sizes (exact integer wavenumbers).",
        "4/C04",
    ),
    "C05": (
        "Hypothesis PBT vs analytic derivatives of generated trigonometric polynomials",
        "Spectral derivatives of order 1..6, Laplace/gradient-inner-product symbols and the Poisson solver are compared with closed-form derivatives of generated Nyquist-free trigonometric polynomials. Grid sizes: enumerated small N plus an 'any N' stratum (wide range incl. floating-point-delicate sizes).",
        "4/C05",
    ),
    "C06": (
        "Hypothesis PBT, metamorphic: eager vs filter_jit vs vmap vs filter_vmap-constructed vs scan compositions",
        "For every exported stepper class the eager one-at-a-time evaluation is the oracle for jit, vmap over states, filter_vmap over constructor parameters and rollout/repeat nestings; batch-member independence is checked by replacing one member. Also the fully compiled sweep filter_jit(filter_vmap(construct+call)) and independence from a non-finite batch member along mapped rollouts.",
        "4/C06",
    ),
    "C07": (
        "Hypothesis PBT: jvp vs central finite differences, vjp adjoint identity, linearity",
        "Forward-mode derivatives w.r.t. state, dt and coefficients are compared with central differences in float64, reverse mode with the adjoint identity, for every stepper class, orders 0-4, through rollouts; finiteness of all derivatives. Structured strata for purely real symbols (zero odd-order coefficients), coefficient-list entries exactly 0, derivative finiteness and linear Jacobians at the rest state.",
        "4/C07",
    ),
    "C08": (
        "Hypothesis PBT, metamorphic relations (grid translations, axis permutations, 1D embedding)",
        "stepper(T u) = T stepper(u) for all grid shifts, all axis permutations (with the channel rule of scalar/vector/pseudo-scalar fields) and embeddings of 1D states, for every stepper class and order, white-noise states.",
        "4/C08",
    ),
    "C09": (
        "Hypothesis PBT, invariants over step histories (mean, energy/enstrophy work, fixed points)",
        "Mean conservation along generated step histories, zero work of the convective terms on band-limited states (physical-space quadrature) and constant equilibria as fixed points, for all listed steppers and orders.",
        "4/C09",
    ),
    "C10": (
        "Hypothesis PBT, invariant (spectral divergence) over rollouts + idempotence/agreement relations",
        "Spectral divergence of Leray / make_incompressible / ProjectedConvection3d outputs and along rollouts of the 3D velocity steppers, idempotence, identity on divergence-free fields, mutual agreement. make_incompressible with indexing='xy' inside an ij/xy/ij call history; linearity for tiny and nearly solenoidal fields.",
        "4/C10",
    ),
    "C11": (
        "Hypothesis PBT, norm/energy invariant over rollouts with arbitrary (white-noise, Nyquist) states",
        "L2 norm non-increase at every step of generated rollouts for all non-amplifying linear configurations, strict decay of every non-constant mode, exact preservation for advection/dispersion on odd N or Nyquist-free states, wave energy conservation (c in R incl. 0). Grid sizes: enumerated small N plus an 'any N' stratum (wide range incl. floating-point-delicate sizes) and production-size 1D grids (512..6000); generic coefficient lists up to order 8.",
        "4/C11",
    ),
    "C12": (
        "Hypothesis PBT vs closed-form laminar solution and forced-stepper identities",
        "Kolmogorov steppers started from rest are compared with f(x)(e^{sigma t}-1)/sigma for the documented forcing over L, N, k, gamma, nu, drag, order, dt, n; ForcedStepper identities. Grid sizes: enumerated small N plus an 'any N' stratum (wide range incl. floating-point-delicate sizes).",
        "4/C12",
    ),
    "C13": (
        "Hypothesis PBT, differential between interfaces (specific/generic/normalized/difficulty) + conversion-function round trips",
        "Each concrete stepper is compared with its generic equivalent, generic with normalized and difficulty steppers, joint rescaling invariance, and the eight conversion functions against their documented formulas.",
        "4/C13",
    ),
    "C14": (
        "Hypothesis stateful (RuleBasedStateMachine) model-based testing against a Python loop + PBT of wrapper steppers",
        "A rule-based state machine drives rollout/repeat/stack_sub_trajectories with integer-valued pytree steppers against a plain Python loop model (exact equality), including functions returned by rollout/repeat that are kept and called again with an aux container refilled in place; RepeatedStepper/ForcedStepper/build_ic_set against loops.",
        "4/C14",
    ),
    "C15": (
        "Hypothesis PBT vs analytic values of trigonometric polynomials; round trips; mean invariant",
        "FourierInterpolator and map_between_resolutions are compared with analytic values of generated band-limited states at arbitrary query points and resolutions of all parity combinations; grid-point reproduction and mean preservation for arbitrary states. Grid sizes: enumerated small N plus an 'any N' stratum (wide range incl. floating-point-delicate sizes).",
        "4/C15",
    ),
    "C16": (
        "Hypothesis PBT: Parseval differential, closed-form integrals, metamorphic scaling/additivity/axioms",
        "All metric functions are checked against closed-form integrals of trig pairs, Parseval agreement, L-scaling, resolution independence, additivity over channels/bands, metric axioms, Sobolev decomposition and correlation bounds. Grid sizes: enumerated small N plus an 'any N' stratum (wide range incl. floating-point-delicate sizes).",
        "4/C16",
    ),
    "C17": (
        "exhaustive enumeration of single modes + Hypothesis PBT vs explicit per-mode sum",
        "Every wavenumber vector of small grids is enumerated as a single-mode field and must land in bin round(|k|) with the documented weight; random states against an explicit per-mode NumPy sum. Lattice modes next to a bin edge on grids up to 300x300, per-bin relative accuracy over 10 decades of dynamic range, amplitude homogeneity at extreme scales.",
        "4/C17",
    ),
    "C18": (
        "Hypothesis PBT of generator contracts (shape, determinism, statistics, spectra, function form vs sampled form)",
        "Every IC generator and wrapper is run over generated option combinations, keys, D and N; documented normalisations, offsets, limits, band limits and spectral shaping are compared with NumPy computations.",
        "4/C18",
    ),
    "C19": (
        "Hypothesis PBT: finiteness over a stiffness sweep, dtype checks, float32-vs-float64 differential",
        "ETDRK coefficients/steps stay finite for |lambda dt| up to 1e15 and at 0; dtypes follow the session; float32 session results agree with float64 session results within a scaled single-precision bound. Also on extreme domain extents, per-mode float32-vs-float64 comparison of the integrators, float32 inputs in an x64 session, and a fresh interpreter that enables x64 after importing the library.",
        "4/C19",
    ),
    "C20": (
        "exhaustive class sweep of malformed shapes + enumerated documented restrictions + Hypothesis-generated wrong shapes",
        "All exported stepper classes x D x malformed-shape kinds must raise ValueError and accept well-formed states; every documented constructor restriction raises. Entry points: __call__, RepeatedStepper(n=1,2), filter_jit, rollout, vmap.",
        "4/C20",
    ),
}


def main():
    checks = []
    na = []
    for pid in sorted(TABLE):
        mod = os.path.join(ROOT, "pbt", "props", pid.lower() + ".py")
        tech, text, ref = TABLE[pid]
        if not os.path.exists(mod):
            na.append(
                dict(
                    property_id=pid,
                    reason="check not built yet in this snapshot (work in progress; the design in DESIGN.md section %s applies)" % ref,
                )
            )
            continue
        checks.append(
            dict(
                property_id=pid,
                quick_cmd="./vcheck %s quick" % pid,
                thorough_cmd="./vcheck %s thorough" % pid,
                evidence_file="evidence/%s.json" % pid,
                replay_cmd_template="./vcheck %s --replay {path}" % pid,
                engine="pbt",
                level_claimed=dict(category="exploration", text=text, design_ref="DESIGN.md section " + ref),
                level_note=TRUST,
                technique=tech,
            )
        )
    man = dict(
        version=1,
        setup_cmd="./setup.sh",
        hooks=dict(
            guard="CEYRON_EXPONAX_VERIF",
            enable="no hooks: the checks only use the public API; vcheck exports CEYRON_EXPONAX_VERIF=1 and puts /repo first on PYTHONPATH (pure Python, nothing to build)",
            baseline_off_cmd="cd /repo && /venv/bin/python -m pytest -q -p no:cacheprovider --timeout=900",
            source_commits=[],
            add_only=True,
        ),
        engines=[
            dict(
                name="pbt",
                path="pbt/",
                serves_properties=[c["property_id"] for c in checks],
                kind_free_text="Hypothesis-driven property-based testing (plain @given, enumerated strata, stateful machine for C14) against NumPy oracles; sharded over processes by pbt/core.py",
            )
        ],
        checks=checks,
        not_applicable=na,
        notes="All checks: ./vcheck <id> quick|thorough; exit 0 held / 1 VIOLATION / 2 harness error. VERIF_SEED selects the seed. Genuine defects repaired in /repo are recorded in known_findings.json under 'fixed'.",
    )
    with open(os.path.join(ROOT, "MANIFEST.json"), "w") as f:
        json.dump(man, f, indent=1)
        f.write("\n")
    # validate when jsonschema is available (tooling venv)
    try:
        subprocess.run(
            [
                "python3-vt",
                "-c",
                "import json,jsonschema;jsonschema.validate(json.load(open('%s/MANIFEST.json')),json.load(open('/root/.vp/MANIFEST.schema.json')));print('MANIFEST valid: %d checks, %d not_applicable')"
                % (ROOT, len(checks), len(na)),
            ],
            check=True,
        )
    except Exception as e:  # pragma: no cover
        print("validation skipped/failed:", e)


if __name__ == "__main__":
    main()
