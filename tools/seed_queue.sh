#!/bin/bash
# usage: tools/seed_queue.sh "C17 m1" "C17 m2" ...
# Appends the given seeds to a queue; a single runner (flock) processes the queue sequentially
# with tools/confirm_seed.sh and logs one SEED line per step to /tmp/w/seedq.log.
lane="${SEED_LANE:-}"; q=/tmp/w/seedq$lane.txt; log=/tmp/w/seedq.log; lock=/tmp/w/seedq$lane.lock
mkdir -p /tmp/w
for s in "$@"; do echo "$s" >> "$q"; done
exec 9>"$lock"
flock -n 9 || exit 0     # a runner is already active
while true; do
  line="$(head -n1 "$q" 2>/dev/null)"
  [ -z "$line" ] && break
  sed -i '1d' "$q"
  /verif/tools/confirm_seed.sh $line 2>&1 | grep -v WARN | grep '^SEED' >> "$log"
done
