#!/bin/bash
# validates every evidence file against the schema (uses the tooling venv's jsonschema)
cd "$(dirname "$0")/.."
python3-vt - <<'PY'
import json, glob, jsonschema
sch=json.load(open('/root/.vp/EVIDENCE.schema.json'))
for f in sorted(glob.glob('evidence/*.json')):
    d=json.load(open(f)); jsonschema.validate(d,sch)
    c=d['coverage']; print(f, 'ok', d['tier'], c['evaluations'], c['distinct_nontrivial'], 'viol', d.get('violations'))
PY
