#!/bin/bash
# usage: tools/cross_matrix.sh [seed ids ...]      (default: all of seeded/)
# For every seeded change, runs the quick checks of properties *other than its own* whose anchored code the patch
# touches, against a scratch copy with the patch applied; results accumulate in seeded/cross_matrix.json
# ("which checks catch which changes"). Uses mutants/audit.sh (scratch copy under /tmp, removed afterwards).
here="$(cd "$(dirname "$0")/.." && pwd)"
cd "$here" || exit 2
related() {
  local files="$1" own="$2" out=""
  case "$files" in *_spectral.py*) out="$out C04 C05 C15";; esac
  case "$files" in *etdrk/*) out="$out C02 C19 C09";; esac
  case "$files" in *nonlin_fun/_base.py*|*nonlin_fun/_convection.py*|*nonlin_fun/_gradient_norm.py*|*nonlin_fun/_polynomial.py*) out="$out C03 C08 C09";; esac
  case "$files" in *nonlin_fun/_vorticity*|*nonlin_fun/_projected*|*nonlin_fun/_leray*) out="$out C03 C12 C10";; esac
  case "$files" in *stepper/_wave.py*) out="$out C01 C11";; esac
  case "$files" in *stepper/generic/*) out="$out C13 C01";; esac
  case "$files" in *stepper/_k*|*stepper/_burgers*|*stepper/reaction/*|*stepper/_navier*) out="$out C13 C02";; esac
  case "$files" in *exponax/_utils.py*) out="$out C14 C04";; esac
  case "$files" in *_interpolation.py*) out="$out C15";; esac
  case "$files" in *metrics/*) out="$out C16";; esac
  case "$files" in *exponax/ic/*) out="$out C18 C14";; esac
  case "$files" in *_base_stepper.py*|*_poisson.py*|*_repeated_stepper.py*|*_forced_stepper.py*) out="$out C20 C14 C05";; esac
  for p in $out; do [ "$p" != "$own" ] && echo "$p"; done | sort -u | tr '\n' ' '
}
ids="$*"
[ -z "$ids" ] && ids="$(ls seeded | grep -E '^C[0-9]+-m[0-9]+$')"
for id in $ids; do
  patch="seeded/$id/patch.diff"
  [ -f "$patch" ] || continue
  own="${id%%-*}"
  files="$(grep '^+++ ' "$patch" | tr '\n' ' ')"
  for p in $(related "$files" "$own"); do
    already=$(/venv/bin/python - "$id" "$p" <<'PY'
import json,sys,os
f='seeded/cross_matrix.json'
d=json.load(open(f)) if os.path.exists(f) else {}
print('yes' if sys.argv[2] in d.get(sys.argv[1],{}) else 'no')
PY
)
    [ "$already" = "yes" ] && continue
    r="$(mutants/audit.sh "$patch" "$p" 2>&1 | grep -E '^(DETECTED|MISSED|ERROR|PATCH-FAILED)' | head -1 | awk '{print $1}')"
    echo "$id $p $r"
    /venv/bin/python - "$id" "$p" "$r" <<'PY'
import json,sys,os
f='seeded/cross_matrix.json'
d=json.load(open(f)) if os.path.exists(f) else {}
d.setdefault(sys.argv[1],{})[sys.argv[2]]=sys.argv[3]
json.dump(d,open(f,'w'),indent=1,sort_keys=True)
PY
  done
done
